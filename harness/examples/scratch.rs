fn main() {
    let input = std::env::args().nth(1).unwrap();
    let ext = std::env::args().nth(2).map(|s| s.parse::<u32>().unwrap()).unwrap_or(cooklang::Extensions::all().bits());
    let p = cooklang::CooklangParser::new(cooklang::Extensions::from_bits_retain(ext), cooklang::Converter::bundled());
    let r = p.parse(&input);
    let mut buf = Vec::new();
    r.report().write("x.cook", &input, false, &mut buf).unwrap();
    println!("{}", String::from_utf8_lossy(&buf));
    if let Some(o) = r.output() { println!("{}", serde_json::to_string(o).unwrap()); }
}
