// scratch: which warnings do generated clean specs trigger
#[path = "../src/core.rs"] mod core;
#[path = "../src/gen/mod.rs"] mod gen;
use gen::recipe::{self as g, feat, GenOpts};
fn main() {
    let mut rng = core::Rng::new(5);
    let mut counts = std::collections::BTreeMap::new();
    let mut ex = std::collections::BTreeMap::new();
    for i in 0..20000 {
        let (opts, ext, conv) = if i % 2 == 0 { (GenOpts::extended(), cooklang::Extensions::all(), cooklang::Converter::bundled()) } else { (GenOpts::canonical(), cooklang::Extensions::empty(), cooklang::Converter::empty()) };
        let spec = g::gen_spec(&mut rng, &opts);
        let sp = g::spell(&spec, i, feat::ALL, 2);
        let p = cooklang::CooklangParser::new(ext, conv);
        let r = p.parse(&sp.text);
        for w in r.report().iter() {
            let k = format!("{:?} {}", w.severity, w.message.split(':').next().unwrap());
            *counts.entry(k.clone()).or_insert(0) += 1;
            ex.entry(k).or_insert(sp.text.clone());
        }
    }
    for (k, v) in &counts { println!("{v:6} {k}\n        {:?}", &ex[k][..ex[k].len().min(300)]); }
}
