//! vmon — runtime monitors for cooklang-rs (one process = one shard of one monitor).

mod core;
mod gen;
mod mon;
mod units;
mod workload;

use crate::core::{Case, Ctx, Tier};

fn usage() -> ! {
    eprintln!("usage: vmon run <PROP> --tier quick|thorough --seed N --shard I/N --profile P --out FILE [--trace FILE]\n       vmon replay <PROP> <case.json> --profile P --out FILE\n       vmon merge-hashes <files...>");
    std::process::exit(64)
}

fn main() {
    let args: Vec<String> = std::env::args().collect();
    if args.len() < 2 {
        usage();
    }
    core::install_panic_hook();
    match args[1].as_str() {
        "merge-hashes" => {
            println!("{}", core::merge_hashes(&args[2..]));
        }
        "run" | "replay" => {
            let replay = args[1] == "replay";
            let prop = args.get(2).cloned().unwrap_or_else(|| usage());
            let mut tier = Tier::Quick;
            let mut seed = 0u64;
            let mut shard = 0usize;
            let mut nshards = 1usize;
            let mut profile = String::from("chk");
            let mut out = String::from("/dev/null");
            let mut trace = None;
            let mut case_file = None;
            let mut i = 3;
            while i < args.len() {
                match args[i].as_str() {
                    "--tier" => {
                        tier = if args[i + 1] == "thorough" { Tier::Thorough } else { Tier::Quick };
                        i += 1
                    }
                    "--seed" => {
                        seed = args[i + 1].parse().expect("seed");
                        i += 1
                    }
                    "--shard" => {
                        let (a, b) = args[i + 1].split_once('/').expect("I/N");
                        shard = a.parse().unwrap();
                        nshards = b.parse().unwrap();
                        i += 1
                    }
                    "--profile" => {
                        profile = args[i + 1].clone();
                        i += 1
                    }
                    "--out" => {
                        out = args[i + 1].clone();
                        i += 1
                    }
                    "--trace" => {
                        trace = Some(args[i + 1].clone());
                        i += 1
                    }
                    other if replay && case_file.is_none() => case_file = Some(other.to_string()),
                    _ => usage(),
                }
                i += 1;
            }
            let mut ctx = Ctx::new(&prop, tier, seed, shard, nshards, &profile);
            if let Some(t) = trace {
                ctx.trace = Some(std::fs::File::create(t).expect("trace file"));
            }
            if replay {
                let text = std::fs::read_to_string(case_file.unwrap_or_else(|| usage())).expect("case file");
                let v: serde_json::Value = serde_json::from_str(&text).expect("case json");
                let case_v = v.get("case").cloned().unwrap_or(v);
                let case: Case = serde_json::from_value(case_v).expect("case");
                mon::replay(&prop, &mut ctx, &case);
            } else {
                mon::run(&prop, &mut ctx);
            }
            ctx.finish(&out);
        }
        _ => usage(),
    }
}
