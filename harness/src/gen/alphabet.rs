//! G2 — strings over a token alphabet: exhaustive short strings, random long
//! ones, and mutations of seed inputs.

use crate::core::Rng;

/// The general token alphabet (markers, operators, multi-char tokens, words of
/// several scripts, whitespace kinds, unit words, mode keys, YAML bits).
pub const ALPHABET: &[&str] = &[
    "@", "#", "~", "{", "}", "(", ")", "%", "|", "=", "&", "+", "-", "?", "/", "*", ":", ">", ".",
    ",", ">>", "--", "[-", "-]", "---", "\\", "0", "1", "01", "10", "999999999999", "a", "B",
    "é", "ß", "漢", "😀", "e\u{301}", " ", "\t", "\u{a0}", "\u{2009}", "\n", "\r\n", "\r", "¿",
    "⸫", "…", "kg", "°C", "min", "in", "[mode]", "steps", "components", "text", "ref", "k: v",
    "- x", "[", "\"",
];

/// Compact alphabet for the exhaustive sweeps: one representative per token class
/// the parser distinguishes, plus multi-byte and line-ending hazards.
pub const SMALL: &[&str] = &[
    "@", "#", "~", "{", "}", "(", ")", "%", "|", "=", "&", "+", "-", "?", "/", ":", ">", ".",
    ">>", "--", "[-", "-]", "---", "\\", "0", "1", "01", "a", "é", "😀", " ", "\u{a0}", "\n",
    "\r\n", "\r", "¿", "kg", "°C", "min", "[mode]", "steps", "k: v", "*", ",", "B",
];

/// Number of strings with exactly `len` symbols.
pub fn count_exact(alpha: usize, len: u32) -> u64 {
    (alpha as u64).pow(len)
}

/// Number of strings with 0..=max symbols.
pub fn count_upto(alpha: usize, max: u32) -> u64 {
    (0..=max).map(|l| count_exact(alpha, l)).sum()
}

/// idx-th string in length-then-lexicographic order over `alpha`.
pub fn nth(alpha: &[&str], mut idx: u64, out: &mut String) {
    out.clear();
    let n = alpha.len() as u64;
    let mut len = 0u32;
    loop {
        let c = n.pow(len);
        if idx < c {
            break;
        }
        idx -= c;
        len += 1;
    }
    let mut digits = [0usize; 16];
    for i in (0..len as usize).rev() {
        digits[i] = (idx % n) as usize;
        idx /= n;
    }
    for d in digits.iter().take(len as usize) {
        out.push_str(alpha[*d]);
    }
}

pub fn random(alpha: &[&str], rng: &mut Rng, min: usize, max: usize) -> String {
    let n = rng.range(min, max);
    let mut s = String::new();
    for _ in 0..n {
        s.push_str(alpha[rng.below(alpha.len())]);
    }
    s
}

/// Random string biased towards recipe-like structure: a few alphabet symbols
/// glued with words and spaces so that components actually form.
pub fn random_structured(alpha: &[&str], rng: &mut Rng, max: usize) -> String {
    let n = rng.range(3, max);
    let mut s = String::new();
    for _ in 0..n {
        match rng.below(10) {
            0..=3 => s.push_str(alpha[rng.below(alpha.len())]),
            4 => s.push_str(*rng.pick(&["a", "word", "é", "B", "salt", "kg", "min", "1", "2"])),
            5 => s.push(' '),
            6 => s.push_str(*rng.pick(&["@a{", "#b{", "~{", "@&", "@&(", "{1%", "{1 ", "}(", ">> ", "= "])),
            7 => s.push_str(*rng.pick(&["}", ")", "%kg}", "%min}", ": v", "\n\n", "\n"])),
            _ => s.push_str(alpha[rng.below(alpha.len())]),
        }
    }
    s
}

/// char-boundary positions of `s` (including 0 and len)
pub fn boundaries(s: &str) -> Vec<usize> {
    let mut v: Vec<usize> = s.char_indices().map(|(i, _)| i).collect();
    v.push(s.len());
    v
}

/// One random mutation at a char boundary: delete / duplicate / swap / insert.
pub fn mutate(seed: &str, alpha: &[&str], rng: &mut Rng) -> String {
    let b = boundaries(seed);
    let mut s = seed.to_string();
    match rng.below(5) {
        0 if b.len() > 1 => {
            // delete one char
            let i = rng.below(b.len() - 1);
            s.replace_range(b[i]..b[i + 1], "");
        }
        1 if b.len() > 1 => {
            // duplicate a short span
            let i = rng.below(b.len() - 1);
            let j = (i + 1 + rng.below(3)).min(b.len() - 1);
            let piece = seed[b[i]..b[j]].to_string();
            s.insert_str(b[j], &piece);
        }
        2 if b.len() > 2 => {
            // swap two adjacent chars
            let i = rng.below(b.len() - 2);
            let a = seed[b[i]..b[i + 1]].to_string();
            let c = seed[b[i + 1]..b[i + 2]].to_string();
            s.replace_range(b[i]..b[i + 2], &format!("{c}{a}"));
        }
        3 if b.len() > 1 => {
            // replace one char by an alphabet symbol
            let i = rng.below(b.len() - 1);
            s.replace_range(b[i]..b[i + 1], alpha[rng.below(alpha.len())]);
        }
        _ => {
            let i = rng.below(b.len());
            s.insert_str(b[i], alpha[rng.below(alpha.len())]);
        }
    }
    s
}

/// Seed corpus: syntactically rich recipes touching every construct.
pub const SEEDS: &[&str] = &[
    "Mix @flour{200%g} and @water{1/2%cup} in a #bowl{}. Wait ~{5%min}.",
    ">> servings: 2|4\n>> time: 1h30m\n\nAdd @salt and @pepper{1%pinch}(ground) to the #pan.\n\nCook for ~rest{10%minutes}.",
    "---\ntitle: Test\nservings: [2, 4]\ntags: [a, b]\ntime: 1 h 5 min\n---\n= Dough\nMix @flour{500%g}.\n\n== Filling ==\nUse @&flour{100%g} and @-salt{}.",
    ">> [mode]: components\n@flour{1%kg}\n@water{500%ml}\n>> [mode]: steps\nMix @flour{500%g} with @water.\n",
    "Add @white wine|wine{2-3%cups} and @@tomato sauce|sauce{=200%ml}.\n\nLet the @&(~1)mix{} rest. Heat to 180 °C.",
    "> A note\n> with two lines\n\nStep one -- comment\ncontinues [- block -] here.\n\n\\@escaped and #cook ware{2}(big)\n",
    "= A\nstep @a{1} @b{2%x}\n\n= B\n@&(=1)x{} @&(=~1)y{} @&a{3} #pot{} #&pot{} ~{1 1/2%h}",
    ">> [duplicate]: ref\n@egg{1} then @egg{2} and @+egg{3}\n\n>> [mode]: text\nthis @is{1} text\n",
    "@a{1 kg} @b{.5%l} @c{01} @d{1 / 2 %cup} @e{ = 3 % g } #f{1-2} ~g{1.5%hour}",
    "Use @olive oil{} and @?thyme or @-secret{1%tsp}.\r\nNext line.\r\n\r\nNew step ~{30%s}.\r\n",
];
