//! G1 — abstract recipe specs, a speller that randomises everything the documented syntax
//! leaves free, and the reference semantics (DESIGN.md Appendix A) that computes the
//! expected recipe from the spec and from the pieces the speller actually emitted.
//!
//! Nothing here looks at the parser's code paths: the expected model is computed from rules.

use crate::core::Rng;
use cooklang::quantity::Number;
use cooklang::{Modifiers, Value};
use serde_json::{json, Value as J};

// ------------------------------------------------------------------ feature classes

pub mod feat {
    pub const WRAP_TEXT: u32 = 1 << 0;
    pub const WRAP_NAME: u32 = 1 << 1;
    pub const WRAP_NOTE: u32 = 1 << 2;
    pub const WRAP_UNIT: u32 = 1 << 3;
    pub const WRAP_QTY: u32 = 1 << 4;
    pub const COMMENT_TEXT: u32 = 1 << 5;
    pub const COMMENT_NAME: u32 = 1 << 6;
    pub const COMMENT_NOTE: u32 = 1 << 7;
    pub const COMMENT_QTY: u32 = 1 << 8;
    pub const LINE_COMMENT: u32 = 1 << 9;
    pub const ESCAPE: u32 = 1 << 10;
    pub const SPACES_QTY: u32 = 1 << 11;
    pub const SINGLE_WORD: u32 = 1 << 12;
    pub const BLANK_LINES: u32 = 1 << 13;
    pub const COMMENT_LINES: u32 = 1 << 14;
    pub const INDENT: u32 = 1 << 15;
    pub const FENCE_STYLE: u32 = 1 << 16;
    pub const META_SPACING: u32 = 1 << 17;
    pub const CRLF: u32 = 1 << 18;
    pub const NO_FINAL_NEWLINE: u32 = 1 << 19;
    pub const LEADING_BLANK: u32 = 1 << 20;
    pub const MULTISPACE: u32 = 1 << 21;
    pub const TIGHT_BLOCKS: u32 = 1 << 22;
    pub const COMMENT_UNIT: u32 = 1 << 23;
    pub const WRAP_TEXTVAL: u32 = 1 << 24;
    /// a tab, NBSP, thin space or ideographic space as the blank between two pieces of step text (kept verbatim, R6)
    pub const UNICODE_BLANK: u32 = 1 << 25;
    pub const ALL: u32 = (1 << 26) - 1;
    pub const NAMES: &[(&str, u32)] = &[
        ("wrap_in_text", WRAP_TEXT),
        ("wrap_in_name", WRAP_NAME),
        ("wrap_in_note", WRAP_NOTE),
        ("wrap_in_unit", WRAP_UNIT),
        ("wrap_in_quantity", WRAP_QTY),
        ("comment_in_text", COMMENT_TEXT),
        ("comment_in_name", COMMENT_NAME),
        ("comment_in_note", COMMENT_NOTE),
        ("comment_in_quantity", COMMENT_QTY),
        ("trailing_line_comment", LINE_COMMENT),
        ("escape", ESCAPE),
        ("spaces_in_quantity", SPACES_QTY),
        ("single_word_component", SINGLE_WORD),
        ("extra_blank_lines", BLANK_LINES),
        ("comment_only_lines", COMMENT_LINES),
        ("indentation", INDENT),
        ("section_fence_style", FENCE_STYLE),
        ("metadata_spacing", META_SPACING),
        ("crlf", CRLF),
        ("no_final_newline", NO_FINAL_NEWLINE),
        ("leading_blank_lines", LEADING_BLANK),
        ("multiple_spaces", MULTISPACE),
        ("tight_single_line_blocks", TIGHT_BLOCKS),
        ("comment_in_unit", COMMENT_UNIT),
        ("wrap_in_text_value", WRAP_TEXTVAL),
        ("unicode_blank_in_text", UNICODE_BLANK),
    ];
    pub fn names(mask: u32) -> Vec<&'static str> {
        NAMES.iter().filter(|(_, b)| mask & b != 0).map(|(n, _)| *n).collect()
    }
}

// ------------------------------------------------------------------ spec

#[derive(Clone, Debug, PartialEq)]
pub enum Val {
    Int(u32),
    Dec(String),
    Frac(u32, u32),
    Mixed(u32, u32, u32),
    Range(Box<Val>, Box<Val>),
    Text(Vec<String>),
}

impl Val {
    pub fn is_text(&self) -> bool {
        matches!(self, Val::Text(_))
    }
    fn number(&self) -> Option<Number> {
        Some(match self {
            Val::Int(n) => Number::Regular(n.to_string().parse::<f64>().unwrap()),
            Val::Dec(s) => Number::Regular(s.parse::<f64>().unwrap()),
            Val::Frac(a, b) => Number::Fraction { whole: 0, num: *a, den: *b, err: 0.0 },
            Val::Mixed(w, a, b) => Number::Fraction { whole: *w, num: *a, den: *b, err: 0.0 },
            _ => return None,
        })
    }
    /// R11: value kinds
    pub fn expected(&self) -> Value {
        match self {
            Val::Range(a, b) => Value::Range { start: a.number().unwrap(), end: b.number().unwrap() },
            Val::Text(words) => Value::Text(words.join(" ")),
            v => Value::Number(v.number().unwrap()),
        }
    }
}

#[derive(Clone, Debug)]
pub struct Qty {
    pub lock: bool,
    pub val: Val,
    pub unit: Option<Vec<String>>,
    /// advanced-units spelling: unit separated by a space instead of `%`
    pub advanced: bool,
}

#[derive(Clone, Copy, Debug, PartialEq, Eq)]
pub enum Kind {
    Ingredient,
    Cookware,
    Timer,
}

#[derive(Clone, Debug)]
pub struct Inter {
    pub relative: bool,
    pub section: bool,
    pub n: u32,
}

#[derive(Clone, Debug)]
pub struct Comp {
    pub kind: Kind,
    /// modifier characters in written order (subset of @ & ? + -)
    pub mods: Vec<char>,
    pub inter: Option<Inter>,
    pub name: Vec<String>,
    pub alias: Option<Vec<String>>,
    pub qty: Option<Qty>,
    pub note: Option<Vec<String>>,
}

#[derive(Clone, Debug)]
pub enum Tok {
    Word(String),
    Gap,
    Esc(char),
    /// planted inline quantity (extended parser with bundled units only)
    Inline { neg: bool, num: String, unit: String, attached: bool },
}

#[derive(Clone, Debug)]
pub enum Item {
    Text(Vec<Tok>),
    Comp(Comp),
}

#[derive(Clone, Debug)]
pub enum FrontVal {
    Str(String),
    Int(i64),
    Float(f64),
    Bool(bool),
    List(Vec<String>),
    IntList(Vec<i64>),
    Map(Vec<(String, String)>),
}

#[derive(Clone, Debug)]
pub enum Block {
    Meta { key: Vec<String>, value: Vec<String> },
    Config { key: String, value: String },
    Section { name: Option<Vec<String>> },
    Step(Vec<Item>),
    Para(Vec<Vec<Tok>>),
}

#[derive(Clone, Debug)]
pub struct Spec {
    pub front: Option<Vec<(String, FrontVal)>>,
    pub blocks: Vec<Block>,
    pub extended: bool,
}

// ------------------------------------------------------------------ vocabulary

const TEXT_WORDS: &[&str] = &[
    "add", "the", "and", "then", "mix", "stir", "well", "until", "golden", "Bake", "slowly", "crème", "über", "漢字", "it", "to", "a", "with",
    "chopped", "finely,", "done.", "ok!", "half;", "(optional)", "a:b", "x|y", "50%", "this&that", "why?", "a+b", "n*m", "and/or", "end.",
    "😀", "e\u{301}clair", "\u{2212}18", "½", "3\u{2212}4", "１２", "x²",
];
const SAFE_AFTER_DIGIT: &[&str] = &["eggs", "times", "large", "pieces", "and", "x", "rounds"];
const NAME_WORDS: &[&str] = &[
    "salt", "flour", "olive", "oil", "Water", "égg", "ñoquis", "漢字", "bread1", "sugar", "Big", "pot", "pan", "butter", "wine", "sauce", "2nd",
    "tomato", "rice", "Öl", "milk", "crème\u{a0}fraîche", "de\u{3000}sel", "ﬂour", "Straße",
];
const SINGLE_WORDS: &[&str] = &["salt", "flour", "Water", "égg", "漢字", "bread1", "sugar", "pot", "pan", "butter", "1", "rice", "Öl"];
const UNITS_MASS: &[&str] = &["g", "kg", "gram", "grams", "oz", "lb", "mg", "dag", "hg", "decagrams"];
const UNITS_VOL: &[&str] = &["ml", "l", "L", "cup", "cups", "tsp", "tbsp", "fl oz", "liters", "dl", "dal", "cl", "decilitre"];
const UNITS_TIME: &[&str] = &["min", "minutes", "h", "hours", "s", "sec", "secs", "hour", "d", "minute"];
const UNITS_UNKNOWN: &[&str] = &["pinch", "cloves", "sprigs", "big handfuls", "cans", "pieces"];
const TEXT_VALUES: &[&[&str]] = &[&["some"], &["a", "pinch"], &["to", "taste"], &["half", "a", "dozen"], &["few"]];
/// text values that begin with a number: only generated together with a `%unit`, because without `%`
/// ADVANCED_UNITS documents `{1 scant}` as value 1 + unit `scant`
const TEXT_VALUES_NUMLEAD: &[&[&str]] = &[&["1", "scant"], &["2", "heaped"], &["3", "or", "4"], &["1/2", "a"], &["1.5", "level"], &["2-3", "big"], &["1", "1/2", "heaped"], &["2", "1/2", "or", "so"], &["1", "/", "2", "a", "b"], &["1,000"], &["2,3"], &["4,06"], &["1,5"], &["0,5", "or", "so"]];
/// canonical parser only (no ADVANCED_UNITS there): a number followed by words without `%` is one text value
const TEXT_VALUES_SPACED_UNIT: &[&[&str]] = &[&["2", "1/2", "cups"], &["1", "kg"], &["3", "big", "ones"], &["1", "1/2", "(heaped)", "tbsp"]];
const NOTE_WORDS: &[&str] = &["finely", "chopped", "sifted", "room", "temperature", "large", "peeled", "crème", "~200", "#10", "@home", "50%", "a|b"];
// free keys and standard keys whose value may be any text
const META_KEYS: &[&str] = &["note", "origin", "k1", "my key", "Kategorie", "x", "title", "description", "cuisine", "author", "tags", "course", "prep time", "cook time", "locale", "time"];
const ESCAPABLE: &[char] = &['@', '#', '~', '{', '}', '>', '=', '\\', '-', '['];

#[derive(Clone, Copy, PartialEq, Eq, Debug)]
enum UnitClass {
    None,
    Mass,
    Vol,
    Unknown(usize),
}

#[derive(Clone, Debug)]
struct GenDef {
    name: Vec<String>,
    mods: Vec<char>,
    /// quantity class of the definition / first quantity in the reference group
    class: Option<(bool /*text*/, UnitClass)>,
    in_step: bool,
    def_has_qty: bool,
}

pub struct GenOpts {
    pub extended: bool,
    /// restrict to what C02 calls core syntax (implies !extended features)
    pub core: bool,
    pub max_sections: usize,
    pub max_blocks: usize,
    pub max_items: usize,
    /// every timer gets a duration (needed under TIMER_REQUIRES_TIME and for C02's core subset)
    pub timers_need_time: bool,
    /// references may carry a quantity of another class than their definition (text vs number, other unit):
    /// documented to warn, still valid — used by the monitors of the consumers (grouping, listing, crashes)
    pub mix_ref_classes: bool,
    /// text values like `{2 1/2 cups}` without `%` (only where ADVANCED_UNITS is certainly off)
    pub spaced_unit_text: bool,
    /// components written inside text-mode steps (they stay text, with a documented warning each)
    pub text_mode_components: bool,
    /// `>> [mode]: steps`-like entries written where MODES is certainly off: they are plain metadata there
    pub bracket_keys_plain: bool,
    /// standard metadata keys with values outside their documented forms (each gives a documented warning)
    pub refused_std_values: bool,
}

impl GenOpts {
    pub fn canonical() -> Self {
        GenOpts { extended: false, core: true, max_sections: 3, max_blocks: 4, max_items: 7, timers_need_time: false, mix_ref_classes: false, spaced_unit_text: true, text_mode_components: true, bracket_keys_plain: true, refused_std_values: true }
    }
    pub fn extended() -> Self {
        GenOpts { extended: true, core: false, max_sections: 3, max_blocks: 4, max_items: 7, timers_need_time: true, mix_ref_classes: false, spaced_unit_text: false, text_mode_components: true, bracket_keys_plain: false, refused_std_values: true }
    }
    /// extended, with references free to change the quantity class (not warning-free)
    pub fn extended_mixed() -> Self {
        GenOpts { mix_ref_classes: true, ..Self::extended() }
    }
    /// the subset C02 calls core syntax
    pub fn core() -> Self {
        GenOpts { extended: false, core: true, max_sections: 3, max_blocks: 4, max_items: 7, timers_need_time: true, mix_ref_classes: false, spaced_unit_text: false, text_mode_components: true, bracket_keys_plain: false, refused_std_values: true }
    }
}

struct Gen<'a> {
    rng: &'a mut Rng,
    o: &'a GenOpts,
    idefs: Vec<GenDef>,
    cdefs: Vec<GenDef>,
    steps_in_section: u32,
    sections_pushed: u32,
    section_has_content: bool,
    section_has_name: bool,
    mode_steps: bool,
    mode_components: bool,
    mode_text: bool,
    dup_ref: bool,
}

fn words(rng: &mut Rng, pool: &[&str], min: usize, max: usize) -> Vec<String> {
    let n = rng.range(min, max);
    (0..n).map(|_| rng.pick(pool).to_string()).collect()
}

fn case_variant(rng: &mut Rng, w: &[String]) -> Vec<String> {
    match rng.below(4) {
        0 => w.iter().map(|s| s.to_uppercase()).collect(),
        1 => w.iter().map(|s| s.to_lowercase()).collect(),
        _ => w.to_vec(),
    }
}

impl<'a> Gen<'a> {
    fn num_val(&mut self, allow_range: bool) -> Val {
        let simple = |rng: &mut Rng| match rng.below(6) {
            0 | 1 => Val::Int(*rng.pick(&[1u32, 2, 3, 5, 10, 12, 100, 250, 999])),
            2 => Val::Dec(rng.pick(&["1.5", "0.5", "2.25", ".5", "10.05", "3.0", "0.125"]).to_string()),
            3 => Val::Frac(rng.range(1, 9) as u32, rng.range(2, 9) as u32),
            4 => Val::Mixed(rng.range(1, 5) as u32, rng.range(1, 3) as u32, rng.range(2, 8) as u32),
            _ => Val::Int(rng.range(1, 50) as u32),
        };
        if allow_range && self.rng.chance(1, 5) {
            let a = simple(self.rng);
            let b = simple(self.rng);
            Val::Range(Box::new(a), Box::new(b))
        } else {
            simple(self.rng)
        }
    }

    fn unit_of(&mut self, c: UnitClass) -> Option<Vec<String>> {
        let u = match c {
            UnitClass::None => return None,
            UnitClass::Mass => *self.rng.pick(UNITS_MASS),
            UnitClass::Vol => *self.rng.pick(UNITS_VOL),
            UnitClass::Unknown(i) => UNITS_UNKNOWN[i],
        };
        Some(u.split(' ').map(|s| s.to_string()).collect())
    }

    fn qty(&mut self, kind: Kind, class: Option<(bool, UnitClass)>) -> Qty {
        let ext = self.o.extended;
        match kind {
            Kind::Cookware => {
                let text = match class {
                    Some((t, _)) => t,
                    None => self.rng.chance(1, 5),
                };
                let val = if text { Val::Text(rng_text(self.rng)) } else { self.num_val(ext) };
                Qty { lock: false, val, unit: None, advanced: false }
            }
            Kind::Timer => {
                let val = self.num_val(ext);
                let unit = Some(self.rng.pick(UNITS_TIME).split(' ').map(|s| s.to_string()).collect());
                let advanced = ext && self.rng.chance(1, 5);
                Qty { lock: false, val, unit, advanced }
            }
            Kind::Ingredient => {
                let (text, uc) = match class {
                    Some(c) => c,
                    None => {
                        let text = self.rng.chance(1, 6);
                        let uc = match self.rng.below(5) {
                            0 => UnitClass::None,
                            1 => UnitClass::Mass,
                            2 => UnitClass::Vol,
                            _ => UnitClass::Unknown(self.rng.below(UNITS_UNKNOWN.len())),
                        };
                        (text, if text && self.rng.coin() { UnitClass::None } else { uc })
                    }
                };
                let val = if text {
                    if uc == UnitClass::None && self.o.spaced_unit_text && !ext && self.rng.chance(1, 3) {
                        Val::Text(self.rng.pick(TEXT_VALUES_SPACED_UNIT).iter().map(|s| s.to_string()).collect())
                    } else if uc != UnitClass::None && self.rng.chance(1, 3) {
                        Val::Text(self.rng.pick(TEXT_VALUES_NUMLEAD).iter().map(|s| s.to_string()).collect())
                    } else {
                        Val::Text(rng_text(self.rng))
                    }
                } else {
                    self.num_val(ext)
                };
                let unit = self.unit_of(uc);
                let lock = !text && self.rng.chance(1, 6);
                let advanced = ext && !text && unit.is_some() && self.rng.chance(1, 4);
                Qty { lock, val, unit, advanced }
            }
        }
    }

    fn class_of(q: &Qty) -> (bool, UnitClass) {
        let uc = match &q.unit {
            None => UnitClass::None,
            Some(u) => {
                let s = u.join(" ");
                if UNITS_MASS.contains(&s.as_str()) {
                    UnitClass::Mass
                } else if UNITS_VOL.contains(&s.as_str()) {
                    UnitClass::Vol
                } else {
                    UnitClass::Unknown(UNITS_UNKNOWN.iter().position(|x| *x == s).unwrap_or(0))
                }
            }
        };
        (q.val.is_text(), uc)
    }

    fn component(&mut self, kind: Kind) -> Comp {
        let ext = self.o.extended;
        if kind == Kind::Timer {
            let has_name = self.rng.chance(1, 2);
            let name = if has_name { words(self.rng, NAME_WORDS, 1, 2) } else { vec![] };
            let has_q = !has_name || self.rng.chance(3, 5) || self.o.timers_need_time;
            let qty = if has_q { Some(self.qty(kind, None)) } else { None };
            return Comp { kind, mods: vec![], inter: None, name, alias: None, qty, note: None };
        }
        // intermediate reference
        if ext && kind == Kind::Ingredient && !self.mode_components && !self.mode_text && self.rng.chance(1, 9) {
            let mut opts = Vec::new();
            if self.steps_in_section >= 1 {
                opts.push((false, false, self.rng.range(1, self.steps_in_section as usize) as u32));
                opts.push((true, false, self.rng.range(1, self.steps_in_section as usize) as u32));
            }
            if self.sections_pushed >= 1 {
                opts.push((false, true, self.rng.range(1, self.sections_pushed as usize) as u32));
                opts.push((true, true, self.rng.range(1, self.sections_pushed as usize) as u32));
            }
            if !opts.is_empty() {
                let (relative, section, n) = *self.rng.pick(&opts);
                let mut mods = vec!['&'];
                if self.rng.chance(1, 4) {
                    if self.rng.coin() {
                        mods.insert(0, '?')
                    } else {
                        mods.push('?')
                    }
                }
                let qty = if self.rng.chance(1, 3) { Some(self.qty(kind, None)) } else { None };
                return Comp { kind, mods, inter: Some(Inter { relative, section, n }), name: words(self.rng, NAME_WORDS, 1, 2), alias: None, qty, note: None };
            }
        }
        let defs_len = if kind == Kind::Ingredient { self.idefs.len() } else { self.cdefs.len() };
        // reference to an existing definition?
        let want_ref = ext && defs_len > 0 && (self.mode_steps || self.rng.chance(1, 3));
        if want_ref {
            let pick = self.rng.below(defs_len);
            // the reference resolves to the LAST definition with that name: use the last one's data
            let name0 = if kind == Kind::Ingredient { self.idefs[pick].name.clone() } else { self.cdefs[pick].name.clone() };
            let defs = if kind == Kind::Ingredient { &self.idefs } else { &self.cdefs };
            let last = defs.iter().rposition(|d| eq_ic(&d.name, &name0)).unwrap();
            let def = defs[last].clone();
            let implicit = self.mode_steps || self.dup_ref;
            let mut mods: Vec<char> = Vec::new();
            if !implicit {
                mods.push('&');
            }
            // may repeat inherited modifiers
            for m in &def.mods {
                let inheritable = matches!(m, '-' | '?') || (*m == '@' && kind == Kind::Ingredient);
                if inheritable && self.rng.chance(1, 3) {
                    if self.rng.coin() {
                        mods.push(*m)
                    } else {
                        mods.insert(0, *m)
                    }
                }
            }
            let can_qty = def.in_step || !def.def_has_qty;
            let class = if self.o.mix_ref_classes && self.rng.coin() { None } else { def.class };
            let qty = if can_qty && self.rng.chance(2, 3) { Some(self.qty(kind, class)) } else { None };
            if let Some(q) = &qty {
                let c = if kind == Kind::Cookware { (q.val.is_text(), UnitClass::None) } else { Self::class_of(q) };
                let d = if kind == Kind::Ingredient { &mut self.idefs[last] } else { &mut self.cdefs[last] };
                if d.class.is_none() {
                    d.class = Some(c);
                }
            }
            let alias = if self.rng.chance(1, 6) { Some(words(self.rng, NAME_WORDS, 1, 2)) } else { None };
            let name = case_variant(self.rng, &def.name);
            return Comp { kind, mods, inter: None, name, alias, qty, note: None };
        }
        if self.mode_steps {
            // a forced new definition in steps mode
            let name = self.fresh_name(kind);
            let mut c = self.definition(kind, name);
            c.mods.insert(0, '+');
            self.register(&c);
            return c;
        }
        let name = if ext && defs_len > 0 && !self.dup_ref && self.rng.chance(1, 6) {
            // a second definition with an existing name (only when duplicates are new definitions)
            let d = if kind == Kind::Ingredient { &self.idefs } else { &self.cdefs };
            d[self.rng.below(d.len())].name.clone()
        } else {
            self.fresh_name(kind)
        };
        let mut c = self.definition(kind, name);
        if self.dup_ref {
            let defs = if kind == Kind::Ingredient { &self.idefs } else { &self.cdefs };
            if defs.iter().any(|d| eq_ic(&d.name, &c.name)) {
                c.mods.insert(0, '+');
            }
        }
        self.register(&c);
        c
    }

    fn fresh_name(&mut self, kind: Kind) -> Vec<String> {
        for _ in 0..20 {
            let n = words(self.rng, NAME_WORDS, 1, 3);
            let defs = if kind == Kind::Ingredient { &self.idefs } else { &self.cdefs };
            if !defs.iter().any(|d| eq_ic(&d.name, &n)) {
                return n;
            }
        }
        vec![format!("thing{}", self.rng.below(100000))]
    }

    fn definition(&mut self, kind: Kind, name: Vec<String>) -> Comp {
        let ext = self.o.extended;
        let mut mods = Vec::new();
        if ext {
            if self.rng.chance(1, 8) {
                mods.push('-');
            }
            if self.rng.chance(1, 8) {
                mods.push('?');
            }
            if kind == Kind::Ingredient && self.rng.chance(1, 10) {
                mods.push('@');
            }
            self.rng.shuffle(&mut mods);
        }
        let qty = if self.rng.chance(3, 4) { Some(self.qty(kind, None)) } else { None };
        let alias = if ext && self.rng.chance(1, 6) { Some(words(self.rng, NAME_WORDS, 1, 2)) } else { None };
        let note = if self.rng.chance(1, 5) { Some(words(self.rng, NOTE_WORDS, 1, 3)) } else { None };
        Comp { kind, mods, inter: None, name, alias, qty, note }
    }

    fn register(&mut self, c: &Comp) {
        let class = c.qty.as_ref().map(|q| if c.kind == Kind::Cookware { (q.val.is_text(), UnitClass::None) } else { Self::class_of(q) });
        let d = GenDef { name: c.name.clone(), mods: c.mods.clone(), class, in_step: !self.mode_components, def_has_qty: c.qty.is_some() };
        match c.kind {
            Kind::Ingredient => self.idefs.push(d),
            Kind::Cookware => self.cdefs.push(d),
            Kind::Timer => {}
        }
    }

    fn text(&mut self, min: usize, max: usize, lead_gap: bool, trail_gap: bool) -> Vec<Tok> {
        let n = self.rng.range(min, max);
        let mut v = Vec::new();
        if lead_gap {
            v.push(Tok::Gap);
        }
        let mut k = 0;
        while k < n {
            if k > 0 {
                v.push(Tok::Gap);
            }
            match self.rng.below(14) {
                0 => {
                    // a number followed by a safe word (never a unit)
                    v.push(Tok::Word(self.rng.pick(&["2", "10", "3.5", "1/2", "01"]).to_string()));
                    v.push(Tok::Gap);
                    v.push(Tok::Word(self.rng.pick(SAFE_AFTER_DIGIT).to_string()));
                }
                1 => v.push(Tok::Esc(*self.rng.pick(ESCAPABLE))),
                _ => v.push(Tok::Word(self.rng.pick(TEXT_WORDS).to_string())),
            }
            k += 1;
        }
        if trail_gap {
            v.push(Tok::Gap);
        }
        v
    }

    fn step(&mut self) -> Vec<Item> {
        let n = self.rng.range(1, self.o.max_items);
        let mut items: Vec<Item> = Vec::new();
        if self.mode_components {
            // only components separated by blanks (alphanumeric text would warn)
            let k = self.rng.range(1, 3);
            for i in 0..k {
                if i > 0 {
                    items.push(Item::Text(vec![Tok::Gap]));
                }
                let kind = if self.rng.chance(3, 4) { Kind::Ingredient } else { Kind::Cookware };
                let c = self.component(kind);
                items.push(Item::Comp(c));
            }
            return items;
        }
        let mut planted_inline = false;
        for i in 0..n {
            let comp = self.rng.chance(1, 2) && !self.mode_text;
            if self.mode_text && self.o.text_mode_components && self.rng.chance(1, 3) {
                // text mode: a component is not parsed as one, its source (name, braces, note) stays in the text verbatim;
                // it defines nothing, so it is not registered
                let kind = match self.rng.below(6) {
                    0..=2 => Kind::Ingredient,
                    3 | 4 => Kind::Cookware,
                    _ => Kind::Timer,
                };
                if let Some(Item::Comp(_)) = items.last() {
                    items.push(Item::Text(vec![Tok::Gap]));
                }
                let name = self.fresh_name(kind);
                let mut c = self.definition(kind, name);
                if kind == Kind::Timer {
                    c.note = None;
                    c.alias = None;
                    c.mods.clear();
                    if c.qty.is_none() {
                        c.qty = Some(self.qty(kind, None));
                    }
                } else if c.note.is_none() && self.rng.coin() {
                    c.note = Some(words(self.rng, NOTE_WORDS, 1, 3));
                }
                items.push(Item::Comp(c));
                continue;
            }
            if comp {
                let kind = match self.rng.below(6) {
                    0..=2 => Kind::Ingredient,
                    3 | 4 => Kind::Cookware,
                    _ => Kind::Timer,
                };
                if let Some(Item::Comp(_)) = items.last() {
                    items.push(Item::Text(vec![Tok::Gap]));
                }
                let c = self.component(kind);
                items.push(Item::Comp(c));
            } else {
                let after_comp = matches!(items.last(), Some(Item::Comp(_)));
                if matches!(items.last(), Some(Item::Text(_))) {
                    continue;
                }
                let mut t = self.text(1, 4, after_comp, i + 1 < n);
                if self.o.extended && !planted_inline && !self.mode_text && self.rng.chance(1, 8) {
                    // plant an inline quantity: text without other digits
                    t.retain(|x| !matches!(x, Tok::Word(w) if w.chars().any(|c| c.is_ascii_digit())));
                    normalise_gaps(&mut t);
                    let (num, unit) = *self.rng.pick(&[("180", "°C"), ("2", "kg"), ("5", "min"), ("1.5", "l"), ("350", "F"), ("4", "C"), ("20", "cm")]);
                    let neg = unit == "C" && self.rng.coin();
                    let inline = Tok::Inline { neg, num: num.to_string(), unit: unit.to_string(), attached: self.rng.chance(1, 3) };
                    if items.is_empty() && self.rng.chance(1, 3) {
                        // the quantity (or its sign) is the very first thing of the step
                        while matches!(t.first(), Some(Tok::Gap)) {
                            t.remove(0);
                        }
                        t.insert(0, Tok::Gap);
                        t.insert(0, inline);
                    } else {
                        if !matches!(t.last(), Some(Tok::Gap)) {
                            t.push(Tok::Gap);
                        }
                        t.push(inline);
                        if i + 1 < n {
                            t.push(Tok::Gap);
                        }
                    }
                    planted_inline = true;
                }
                items.push(Item::Text(t));
            }
        }
        if items.is_empty() {
            items.push(Item::Text(self.text(1, 3, false, false)));
        }
        // a block must not end in a gap (trailing blanks are literal but a trailing wrap is not)
        items
    }

    fn para(&mut self) -> Vec<Vec<Tok>> {
        let n = self.rng.range(1, 3);
        (0..n).map(|_| self.text(1, 4, false, false)).collect()
    }
}

fn normalise_gaps(t: &mut Vec<Tok>) {
    let mut out: Vec<Tok> = Vec::new();
    for x in t.drain(..) {
        if matches!(x, Tok::Gap) && matches!(out.last(), Some(Tok::Gap)) {
            continue;
        }
        out.push(x);
    }
    *t = out;
}

fn rng_text(rng: &mut Rng) -> Vec<String> {
    rng.pick(TEXT_VALUES).iter().map(|s| s.to_string()).collect()
}

fn eq_ic(a: &[String], b: &[String]) -> bool {
    unicase::UniCase::new(a.join(" ")) == unicase::UniCase::new(b.join(" "))
}

pub fn gen_spec(rng: &mut Rng, o: &GenOpts) -> Spec {
    let mut g = Gen {
        rng,
        o,
        idefs: vec![],
        cdefs: vec![],
        steps_in_section: 0,
        sections_pushed: 0,
        section_has_content: false,
        section_has_name: false,
        mode_steps: false,
        mode_components: false,
        mode_text: false,
        dup_ref: false,
    };
    let style = g.rng.below(10);
    let mut blocks: Vec<Block> = Vec::new();
    let mut front = None;
    let arrow_meta = (3..6).contains(&style);
    if style >= 6 && style < 9 {
        let mut f: Vec<(String, FrontVal)> = Vec::new();
        let n = g.rng.range(1, 4);
        for i in 0..n {
            let (k, v) = match g.rng.below(9) {
                0 => ("title".to_string(), FrontVal::Str(g.rng.pick(&["Pasta al forno", "Crème brûlée", "Test 1"]).to_string())),
                1 => (g.rng.pick(&["servings", "servings", "serves", "yield"]).to_string(), if g.rng.coin() { FrontVal::Int(*g.rng.pick(&[1, 2, 4, 12])) } else { FrontVal::IntList(g.rng.pick(&[&[2i64, 4, 6][..], &[4, 2], &[6, 2, 4], &[8, 4, 12], &[3]]).to_vec()) }),
                2 => ("tags".to_string(), FrontVal::List(vec!["quick".into(), "vegan".into()])),
                3 => ("time".to_string(), FrontVal::Str(g.rng.pick(&["1h30m", "45m", "2h"]).to_string())),
                4 => ("nested".to_string(), FrontVal::Map(vec![("a".into(), "b".into()), ("c".into(), "d e".into())])),
                5 => ("flag".to_string(), FrontVal::Bool(g.rng.coin())),
                6 => ("ratio".to_string(), FrontVal::Float(*g.rng.pick(&[1.5, 0.25, 10.125]))),
                _ => (format!("key{i}"), FrontVal::Str(g.rng.pick(&["plain value", "with: colon", "# not a comment", "123abc", "été"]).to_string())),
            };
            let is_servings = |x: &str| matches!(x, "servings" | "serves" | "yield");
            if !f.iter().any(|(kk, _)| *kk == k || (is_servings(kk) && is_servings(&k))) {
                f.push((k, v));
            }
        }
        front = Some(f);
    }
    let nsec = g.rng.range(1, o.max_sections);
    if o.extended && g.rng.chance(1, 6) {
        blocks.push(Block::Config { key: "[duplicate]".into(), value: g.rng.pick(&["ref", "reference"]).to_string() });
        g.dup_ref = true;
    }
    let scenario = if o.extended { g.rng.below(8) } else { 9 };
    for s in 0..nsec {
        let named = s > 0 || g.rng.chance(1, 3);
        if named {
            // starting a new section pushes the previous one if it is not empty
            if g.section_has_content || g.section_has_name {
                g.sections_pushed += 1;
            }
            let name = if g.rng.chance(5, 6) { Some(words(g.rng, NAME_WORDS, 1, 3)) } else { None };
            g.section_has_name = name.is_some();
            g.section_has_content = false;
            g.steps_in_section = 0;
            blocks.push(Block::Section { name });
        }
        if s == 0 && scenario == 0 {
            // manual ingredient list then steps mode
            blocks.push(Block::Config { key: g.rng.pick(&["[mode]", "[define]"]).to_string(), value: g.rng.pick(&["components", "ingredients"]).to_string() });
            g.mode_components = true;
            let k = g.rng.range(1, 3);
            for _ in 0..k {
                if g.rng.chance(1, 4) {
                    // a text paragraph inside the components region stays (only the steps are dropped there)
                    let p = g.para();
                    blocks.push(Block::Para(p));
                    g.section_has_content = true;
                }
                let st = g.step();
                blocks.push(Block::Step(st));
            }
            g.mode_components = false;
            if g.rng.coin() {
                blocks.push(Block::Config { key: "[mode]".into(), value: "steps".into() });
                g.mode_steps = true;
            } else {
                blocks.push(Block::Config { key: "[mode]".into(), value: g.rng.pick(&["all", "default"]).to_string() });
            }
        }
        let nb = g.rng.range(1, o.max_blocks);
        for b in 0..nb {
            match g.rng.below(12) {
                0 | 1 if arrow_meta => {
                    let key = if o.bracket_keys_plain && !o.extended && g.rng.chance(1, 6) {
                        vec![g.rng.pick(&["[mode]", "[duplicate]", "[define]", "[mode]"]).to_string()]
                    } else if g.rng.chance(1, 4) {
                        vec![g.rng.pick(&["servings", "servings", "serves", "yield"]).to_string()]
                    } else {
                        g.rng.pick(META_KEYS).split(' ').map(|s| s.to_string()).collect()
                    };
                    let is_servings = matches!(key[0].as_str(), "servings" | "serves" | "yield");
                    if !o.refused_std_values && !is_servings && matches!(key.join(" ").as_str(), "prep time" | "cook time" | "time" | "locale") {
                        continue;
                    }
                    let value = if is_servings && (!o.refused_std_values || !g.rng.chance(1, 5)) {
                        vec![g.rng.pick(&["2", "4", "2|4|8", "12", "4|2", "6|3|12", "10|5"]).to_string()]
                    } else if is_servings || matches!(key.join(" ").as_str(), "prep time" | "cook time" | "time" | "locale") {
                        // a standard key with a value outside its documented forms: a warning, the entry stays as text
                        words(g.rng, &["overnight", "english", "one", "big", "family", "soon", "a", "while"], 1, 3)
                    } else if key[0].starts_with('[') {
                        vec![g.rng.pick(&["ref", "steps", "components", "text", "new", "reference", "ingredients"]).to_string()]
                    } else {
                        words(g.rng, TEXT_WORDS, 1, 3)
                    };
                    blocks.push(Block::Meta { key, value });
                }
                2 => {
                    let p = g.para();
                    blocks.push(Block::Para(p));
                    g.section_has_content = true;
                }
                3 if scenario == 1 && b > 0 && !g.mode_text && !g.mode_steps => {
                    blocks.push(Block::Config { key: "[mode]".into(), value: "text".into() });
                    g.mode_text = true;
                    let st = g.step();
                    blocks.push(Block::Step(st));
                    g.section_has_content = true;
                    blocks.push(Block::Config { key: "[mode]".into(), value: "all".into() });
                    g.mode_text = false;
                }
                _ => {
                    let st = g.step();
                    blocks.push(Block::Step(st));
                    g.section_has_content = true;
                    g.steps_in_section += 1;
                }
            }
        }
    }
    Spec { front, blocks, extended: o.extended }
}

// ------------------------------------------------------------------ speller + reference semantics

pub struct Spelled {
    pub text: String,
    /// expected serde_json image of the ScalableRecipe (None: the spec is not well-formed by the rules)
    pub expected: Option<J>,
    /// expected metadata keys in order
    pub meta_order: Vec<String>,
    pub used: u32,
    pub constructs: Vec<&'static str>,
    pub reject: Option<String>,
}

struct RefDef {
    name: String,
    mods: Modifiers,
    has_qty: bool,
    in_step: bool,
    is_ref: bool,
}

struct Sp<'a> {
    rng: Rng,
    seed: u64,
    blk: u64,
    itm: u64,
    loc: u64,
    mask: u32,
    level: u32,
    used: u32,
    out: String,
    /// the current physical line has non-blank, non-comment content
    line_content: bool,
    /// byte ranges of `out` that are comments (block or line)
    comment_spans: Vec<(usize, usize)>,
    constructs: Vec<&'static str>,
    extended: bool,
    // --- reference semantics state
    ingredients: Vec<J>,
    cookware: Vec<J>,
    timers: Vec<J>,
    inline: Vec<J>,
    idefs: Vec<RefDef>,
    cdefs: Vec<RefDef>,
    sections: Vec<J>,
    cur_name: Option<String>,
    cur_content: Vec<J>,
    step_no: u32,
    mode: u8, // 0 all, 1 components, 2 steps, 3 text
    dup_ref: bool,
    meta: Vec<(String, J)>,
    servings: Option<Vec<u32>>,
    has_front: bool,
    reject: Option<String>,
    _p: std::marker::PhantomData<&'a ()>,
}

fn collapse(s: &str) -> String {
    // R9: trim (unicode white space) and collapse runs of U+0020
    let t = s.trim();
    let mut out = String::new();
    let mut prev = false;
    for c in t.chars() {
        if c == ' ' {
            if !prev {
                out.push(c);
            }
            prev = true;
        } else {
            prev = false;
            out.push(c);
        }
    }
    out
}

fn mods_of(chars: &[char]) -> Modifiers {
    let mut m = Modifiers::empty();
    for c in chars {
        m |= match c {
            '@' => Modifiers::RECIPE,
            '&' => Modifiers::REF,
            '?' => Modifiers::OPT,
            '+' => Modifiers::NEW,
            '-' => Modifiers::HIDDEN,
            _ => Modifiers::empty(),
        };
    }
    m
}

impl<'a> Sp<'a> {
    /// Every choice site draws from its own stream keyed by (block, item, local index), so
    /// masking a feature at one site leaves the choices of all other items unchanged.
    fn enter(&mut self, blk: u64, itm: u64) {
        self.blk = blk;
        self.itm = itm;
        self.loc = 0;
        self.reseed();
    }
    fn reseed(&mut self) {
        let mut b = [0u8; 32];
        b[..8].copy_from_slice(&self.seed.to_le_bytes());
        b[8..16].copy_from_slice(&self.blk.to_le_bytes());
        b[16..24].copy_from_slice(&self.itm.to_le_bytes());
        b[24..].copy_from_slice(&self.loc.to_le_bytes());
        self.rng = Rng::new(crate::core::hash64(&b));
        self.loc += 1;
    }
    fn opt(&mut self, f: u32, num: u32, den: u32) -> bool {
        // always draw, then apply the mask: the other choices stay aligned when a feature is masked
        let r = self.rng.chance(num * self.level.max(1), den * 2);
        if r && self.level > 0 && self.mask & f != 0 {
            self.used |= f;
            true
        } else {
            false
        }
    }
    /// like `opt` but does not record the feature as used (the caller does when it applies it)
    fn draw(&mut self, f: u32, num: u32, den: u32) -> bool {
        let r = self.rng.chance(num * self.level.max(1), den * 2);
        r && self.level > 0 && self.mask & f != 0
    }
    fn emit(&mut self, s: &str) {
        for c in s.chars() {
            if c == '\n' {
                self.line_content = false;
            } else if !c.is_whitespace() {
                self.line_content = true;
            }
        }
        self.out.push_str(s);
    }
    /// emit a comment (does not count as line content)
    fn emit_comment(&mut self, s: &str) {
        self.comment_spans.push((self.out.len(), self.out.len() + s.len()));
        self.out.push_str(s);
    }
    fn comment_body(&mut self) -> &'static str {
        *self.rng.pick(&[" c ", "note", " @x{1} ", " é ", "", " a - b "])
    }

    /// A gap between two words. Returns what the gap contributes (R6/R9).
    /// `wrap`/`comment` are the feature classes for this context; `can_wrap`: a following
    /// token exists on which the next line can start.
    fn gap(&mut self, wrap: u32, comment: u32, can_wrap: bool) -> String {
        self.reseed();
        let mut exp = String::new();
        let want_comment = self.draw(comment, 1, 8);
        let lead = self.rng.coin();
        let trail = self.rng.coin() || !lead;
        let body_idx = self.rng.below(6);
        let _ = body_idx;
        if want_comment {
            self.used |= comment;
            if lead {
                self.emit(" ");
                exp.push(' ');
            }
            let b = self.comment_body();
            self.emit_comment(&format!("[-{b}-]"));
            if trail {
                self.emit(" ");
                exp.push(' ');
            }
            if !lead && !trail {
                // cannot happen (trail forced), kept for clarity
            }
            return exp;
        }
        // draw first so that the random stream does not depend on the emitted text
        let want_wrap = self.draw(wrap, 1, 6);
        let want_lc = self.draw(feat::LINE_COMMENT, 1, 3);
        let want_sp = self.rng.chance(1, 3);
        let want_indent = self.draw(feat::INDENT, 1, 3);
        let want_multi = self.draw(feat::MULTISPACE, 1, 8);
        if can_wrap && self.line_content && want_wrap {
            self.used |= wrap;
            if want_lc {
                self.used |= feat::LINE_COMMENT;
                self.emit(" ");
                exp.push(' ');
                let b = self.comment_body();
                self.emit_comment(&format!("--{b}"));
            } else if want_sp {
                self.emit(" ");
                exp.push(' ');
            }
            self.emit("\n");
            exp.push(' ');
            if want_indent {
                self.used |= feat::INDENT;
                self.emit("  ");
                exp.push_str("  ");
            }
            return exp;
        }
        if want_multi {
            self.used |= feat::MULTISPACE;
            self.emit("  ");
            exp.push_str("  ");
        } else {
            self.emit(" ");
            exp.push(' ');
        }
        exp
    }

    /// words separated by gaps; returns the expected raw string (before trimming)
    fn words(&mut self, ws: &[String], wrap: u32, comment: u32) -> String {
        let mut exp = String::new();
        for (i, w) in ws.iter().enumerate() {
            if i > 0 {
                exp.push_str(&self.gap(wrap, comment, true));
            }
            self.emit(w);
            exp.push_str(w);
        }
        exp
    }

    fn pad(&mut self) -> &'static str {
        // optional blank inside braces (trimmed away by R9)
        self.reseed();
        if self.opt(feat::SPACES_QTY, 1, 3) {
            let s = *self.rng.pick(&[" ", "  ", "\t", " \u{a0}"]);
            self.emit(s);
            s
        } else {
            ""
        }
    }

    fn num_piece(&mut self, v: &Val) {
        match v {
            Val::Int(n) => self.emit(&n.to_string()),
            Val::Dec(s) => self.emit(s),
            Val::Frac(a, b) => {
                self.emit(&a.to_string());
                self.pad();
                self.emit("/");
                self.pad();
                self.emit(&b.to_string());
            }
            Val::Mixed(w, a, b) => {
                self.emit(&w.to_string());
                self.emit(" ");
                self.pad();
                self.emit(&a.to_string());
                self.pad();
                self.emit("/");
                self.pad();
                self.emit(&b.to_string());
            }
            _ => unreachable!(),
        }
    }

    fn qty_break(&mut self) {
        // a soft wrap or a comment inside the braces, next to the value
        self.reseed();
        if self.opt(feat::WRAP_QTY, 1, 10) {
            self.emit("\n");
        } else if self.opt(feat::COMMENT_QTY, 1, 10) {
            let b = self.comment_body();
            self.emit_comment(&format!("[-{b}-]"));
        }
    }

    /// spell `{ ... }`; returns (expected value, expected unit)
    fn quantity(&mut self, q: &Qty) -> (Value, Option<String>) {
        self.emit("{");
        self.pad();
        if q.lock {
            self.emit("=");
            self.pad();
        }
        self.constructs.push(match &q.val {
            Val::Int(_) => "value_int",
            Val::Dec(_) => "value_decimal",
            Val::Frac(..) => "value_fraction",
            Val::Mixed(..) => "value_mixed",
            Val::Range(..) => "value_range",
            Val::Text(_) => "value_text",
        });
        if q.lock {
            self.constructs.push("scaling_lock");
        }
        if matches!(&q.val, Val::Text(ws) if ws[0].starts_with(|c: char| c.is_ascii_digit())) {
            self.constructs.push("value_text_number_led");
        }
        if q.unit.is_some() {
            self.constructs.push(if q.advanced { "unit_advanced" } else { "unit_percent" });
        }
        match &q.val {
            Val::Text(ws) => {
                let _ = self.words(ws, feat::WRAP_TEXTVAL, feat::COMMENT_QTY);
            }
            Val::Range(a, b) => {
                self.num_piece(a);
                self.pad();
                self.emit("-");
                self.pad();
                self.num_piece(b);
            }
            v => {
                self.qty_break();
                self.num_piece(v);
                if !q.advanced {
                    self.qty_break();
                }
            }
        }
        let mut unit_exp = None;
        if let Some(u) = &q.unit {
            if q.advanced {
                self.emit(" ");
                self.pad();
                let raw = self.words(u, 0, 0);
                unit_exp = Some(collapse(&raw));
            } else {
                self.pad();
                self.emit("%");
                self.pad();
                let raw = self.words(u, feat::WRAP_UNIT, feat::COMMENT_UNIT);
                unit_exp = Some(collapse(&raw));
            }
        }
        self.pad();
        self.emit("}");
        (q.val.expected(), unit_exp)
    }

    fn single_word_ok(c: &Comp) -> bool {
        c.name.len() == 1 && c.qty.is_none() && c.alias.is_none() && SINGLE_WORDS.contains(&c.name[0].as_str())
    }

    /// Spell one component; `next_is_safe`: what follows allows the brace-less form.
    /// Returns (name, alias, quantity(value, unit), note) as expected strings.
    fn component_src(&mut self, c: &Comp, next_is_safe: bool) -> (String, Option<String>, Option<(Value, Option<String>)>, Option<String>) {
        let start = self.out.len();
        let _ = start;
        self.emit(match c.kind {
            Kind::Ingredient => "@",
            Kind::Cookware => "#",
            Kind::Timer => "~",
        });
        for m in &c.mods {
            self.emit(&m.to_string());
            if *m == '&' {
                if let Some(i) = &c.inter {
                    self.emit("(");
                    if i.section {
                        self.emit("=");
                    }
                    if i.relative {
                        self.emit("~");
                    }
                    self.emit(&i.n.to_string());
                    self.emit(")");
                }
            }
        }
        self.reseed();
        let single = Self::single_word_ok(c) && next_is_safe && self.opt(feat::SINGLE_WORD, 3, 4);
        let name_raw = if single {
            self.emit(&c.name[0]);
            c.name[0].clone()
        } else {
            self.words(&c.name, feat::WRAP_NAME, feat::COMMENT_NAME)
        };
        let mut alias_exp = None;
        let mut q_exp = None;
        if !single {
            if let Some(a) = &c.alias {
                self.pad();
                self.emit("|");
                self.pad();
                let raw = self.words(a, feat::WRAP_NAME, feat::COMMENT_NAME);
                alias_exp = Some(collapse(&raw));
            }
            match &c.qty {
                Some(q) => q_exp = Some(self.quantity(q)),
                None => {
                    self.emit("{");
                    if self.opt(feat::SPACES_QTY, 1, 4) {
                        self.emit(" ");
                    }
                    self.emit("}");
                }
            }
        }
        let mut note_exp = None;
        if let Some(n) = &c.note {
            self.emit("(");
            let lead = self.pad();
            let mut raw = String::from(lead);
            raw.push_str(&self.words(n, feat::WRAP_NOTE, feat::COMMENT_NOTE));
            self.pad();
            self.emit(")");
            note_exp = Some(collapse(&raw));
        }
        (collapse(&name_raw), alias_exp, q_exp, note_exp)
    }

    // ---------------- reference semantics for components (R12-R18)

    fn quantity_json(kind: Kind, q: &Qty, v: &Value, unit: &Option<String>) -> J {
        let linear = kind == Kind::Ingredient && !q.val.is_text() && !q.lock;
        let sv = if linear { cooklang::ScalableValue::Linear(v.clone()) } else { cooklang::ScalableValue::Fixed(v.clone()) };
        if kind == Kind::Cookware {
            serde_json::to_value(&sv).unwrap()
        } else {
            json!({"value": serde_json::to_value(&sv).unwrap(), "unit": unit})
        }
    }

    fn add_component(&mut self, c: &Comp, name: String, alias: Option<String>, q: Option<(Value, Option<String>)>, note: Option<String>) -> Option<J> {
        let qj = match (&c.qty, &q) {
            (Some(qs), Some((v, u))) => Self::quantity_json(c.kind, qs, v, u),
            _ => J::Null,
        };
        if c.kind == Kind::Timer {
            let name_j = if name.is_empty() { J::Null } else { J::String(name) };
            self.timers.push(json!({"name": name_j, "quantity": qj}));
            self.constructs.push(if c.qty.is_some() { "timer_with_quantity" } else { "timer_name_only" });
            return Some(json!({"type": "timer", "index": self.timers.len() - 1}));
        }
        let written = mods_of(&c.mods);
        let mut mods = written;
        self.constructs.push(if c.kind == Kind::Ingredient { "ingredient" } else { "cookware" });
        for (m, n) in [(Modifiers::RECIPE, "modifier_recipe"), (Modifiers::OPT, "modifier_opt"), (Modifiers::HIDDEN, "modifier_hidden"), (Modifiers::NEW, "modifier_new")] {
            if written.contains(m) {
                self.constructs.push(n);
            }
        }
        if alias.is_some() {
            self.constructs.push("alias");
        }
        if note.is_some() {
            self.constructs.push("note");
        }
        if c.name.len() > 1 {
            self.constructs.push("multiword_name");
        }
        let is_ing = c.kind == Kind::Ingredient;
        let defined_in_step = self.mode != 1;
        let mut relation;
        if let Some(i) = &c.inter {
            // R17
            let step_positions: Vec<usize> = self.cur_content.iter().enumerate().filter(|(_, c)| c["type"] == "step").map(|(i, _)| i).collect();
            let idx = if !i.section {
                if i.n == 0 || i.n as usize > step_positions.len() {
                    self.reject = Some("intermediate step reference out of range".into());
                    return None;
                }
                if i.relative {
                    step_positions[step_positions.len() - i.n as usize]
                } else {
                    step_positions[i.n as usize - 1]
                }
            } else {
                if i.n == 0 || i.n as usize > self.sections.len() {
                    self.reject = Some("intermediate section reference out of range".into());
                    return None;
                }
                if i.relative {
                    self.sections.len() - i.n as usize
                } else {
                    i.n as usize - 1
                }
            };
            relation = json!({"type": "reference", "references_to": idx, "reference_target": if i.section { "section" } else { "step" }});
            self.constructs.push(match (i.section, i.relative) {
                (false, false) => "intermediate_step_number",
                (false, true) => "intermediate_step_relative",
                (true, false) => "intermediate_section_number",
                (true, true) => "intermediate_section_relative",
            });
        } else {
            // R16
            if written.contains(Modifiers::NEW | Modifiers::REF) {
                self.reject = Some("new and ref".into());
                return None;
            }
            let defs = if is_ing { &self.idefs } else { &self.cdefs };
            let same = defs.iter().rposition(|d| !d.is_ref && unicase::UniCase::new(d.name.as_str()) == unicase::UniCase::new(name.as_str()));
            let as_ref = !written.contains(Modifiers::NEW) && (written.contains(Modifiers::REF) || self.mode == 2 || (self.dup_ref && same.is_some()));
            if as_ref {
                let Some(t) = same else {
                    self.reject = Some("reference without definition".into());
                    return None;
                };
                let d = &defs[t];
                let inherit_set = if is_ing { Modifiers::HIDDEN | Modifiers::OPT | Modifiers::RECIPE } else { Modifiers::HIDDEN | Modifiers::OPT };
                let inherited = d.mods & inherit_set;
                if !(written & !inherited & !Modifiers::REF).is_empty() {
                    self.reject = Some("conflicting reference modifiers".into());
                    return None;
                }
                if note.is_some() {
                    self.reject = Some("note on reference".into());
                    return None;
                }
                if d.has_qty && q.is_some() && !d.in_step {
                    self.reject = Some("quantity on reference to components-mode definition".into());
                    return None;
                }
                mods |= inherited | Modifiers::REF;
                let my_index = if is_ing { self.ingredients.len() } else { self.cookware.len() };
                let list = if is_ing { &mut self.ingredients } else { &mut self.cookware };
                list[t]["relation"]["referenced_from"].as_array_mut().unwrap().push(json!(my_index));
                relation = if is_ing {
                    json!({"type": "reference", "references_to": t, "reference_target": "ingredient"})
                } else {
                    json!({"type": "reference", "references_to": t})
                };
                self.constructs.push(if written.contains(Modifiers::REF) { "explicit_reference" } else { "implicit_reference" });
            } else {
                relation = json!({"type": "definition", "referenced_from": [], "defined_in_step": defined_in_step});
                if is_ing {
                    relation["reference_target"] = J::Null;
                }
            }
        }
        let is_ref = mods.contains(Modifiers::REF);
        let rd = RefDef { name: name.clone(), mods, has_qty: q.is_some(), in_step: defined_in_step, is_ref };
        let mods_j = serde_json::to_value(mods).unwrap();
        if is_ing {
            self.idefs.push(rd);
            self.ingredients.push(json!({"name": name, "alias": alias, "quantity": qj, "note": note, "reference": J::Null, "relation": relation, "modifiers": mods_j}));
            Some(json!({"type": "ingredient", "index": self.ingredients.len() - 1}))
        } else {
            self.cdefs.push(rd);
            self.cookware.push(json!({"name": name, "alias": alias, "quantity": qj, "note": note, "relation": relation, "modifiers": mods_j}));
            Some(json!({"type": "cookware", "index": self.cookware.len() - 1}))
        }
    }

    // ---------------- text

    /// spell text tokens; returns expected raw text
    fn text_tokens(&mut self, toks: &[Tok], more_follows: bool, starts_line_sensitive: bool) -> String {
        let _ = starts_line_sensitive;
        let mut exp = String::new();
        for (i, t) in toks.iter().enumerate() {
            match t {
                Tok::Word(w) => {
                    self.emit(w);
                    exp.push_str(w);
                }
                Tok::Esc(c) => {
                    if self.mask & feat::ESCAPE != 0 {
                        self.used |= feat::ESCAPE;
                        self.emit(&format!("\\{c}"));
                        exp.push(*c);
                    } else {
                        self.emit("x");
                        exp.push('x');
                    }
                }
                Tok::Gap => {
                    let can_wrap = i + 1 < toks.len() || more_follows;
                    // a wrap must be followed by content on the next line: never before a trailing gap
                    let next_is_content = toks.get(i + 1).map(|n| !matches!(n, Tok::Gap)).unwrap_or(more_follows);
                    // between content on the same line: sometimes a blank that is not U+0020 (text keeps it as written)
                    let next_is_word = matches!(toks.get(i + 1), Some(Tok::Word(_)));
                    let want_unicode = self.draw(feat::UNICODE_BLANK, 1, 10);
                    if want_unicode && self.line_content && next_is_word {
                        self.used |= feat::UNICODE_BLANK;
                        let b = *self.rng.pick(&["\t", "\u{a0}", "\u{2009}", "\u{3000}", " \t", "\u{a0} "]);
                        self.emit(b);
                        exp.push_str(b);
                        continue;
                    }
                    exp.push_str(&self.gap(feat::WRAP_TEXT, feat::COMMENT_TEXT, can_wrap && next_is_content));
                }
                Tok::Inline { neg, num, unit, attached } => {
                    let s = format!("{}{}{}{}", if *neg { "-" } else { "" }, num, if *attached { "" } else { " " }, unit);
                    self.emit(&s);
                    exp.push_str(&s);
                }
            }
        }
        exp
    }

    /// R7: split a text run at planted inline quantities (extended parser, bundled units)
    fn push_text_items(&mut self, items: &mut Vec<J>, raw: &str, toks: &[&Tok]) {
        if raw.is_empty() {
            return;
        }
        let inline: Vec<&Tok> = toks.iter().copied().filter(|t| matches!(t, Tok::Inline { .. })).collect();
        if inline.is_empty() || !self.extended {
            items.push(json!({"type": "text", "value": raw}));
            return;
        }
        let mut rest = raw;
        for t in inline {
            let Tok::Inline { neg, num, unit, attached } = t else { unreachable!() };
            let s = format!("{}{}{}{}", if *neg { "-" } else { "" }, num, if *attached { "" } else { " " }, unit);
            let pos = rest.find(&s).expect("planted inline quantity in text");
            let before = &rest[..pos];
            if !before.is_empty() {
                items.push(json!({"type": "text", "value": before}));
            }
            let n: f64 = num.parse().unwrap();
            let v = Value::Number(Number::Regular(if *neg { -n } else { n }));
            self.inline.push(json!({"value": serde_json::to_value(&v).unwrap(), "unit": unit}));
            items.push(json!({"type": "inlineQuantity", "index": self.inline.len() - 1}));
            rest = &rest[pos + s.len()..];
            self.constructs.push("inline_quantity");
        }
        if !rest.is_empty() {
            items.push(json!({"type": "text", "value": rest}));
        }
    }

    // ---------------- blocks

    fn step(&mut self, items: &[Item]) {
        let block_start = self.out.len();
        let mut out_items: Vec<J> = Vec::new();
        let mut pending = String::new();
        let mut pending_toks: Vec<&Tok> = Vec::new();
        if self.opt(feat::INDENT, 1, 6) && !matches!(items.first(), Some(Item::Text(t)) if matches!(t.first(), Some(Tok::Gap))) {
            self.emit("  ");
            pending.push_str("  ");
        }
        let mut text_mode_src = String::new();
        for (i, it) in items.iter().enumerate() {
            let more = i + 1 < items.len();
            self.enter(self.blk, i as u64 + 1);
            match it {
                Item::Text(toks) => {
                    let raw = self.text_tokens(toks, more, false);
                    pending.push_str(&raw);
                    pending_toks.extend(toks.iter());
                }
                Item::Comp(c) => {
                    let next_safe = match items.get(i + 1) {
                        None => true,
                        Some(Item::Comp(_)) => false,
                        Some(Item::Text(t)) => match t.first() {
                            Some(Tok::Gap) => true,
                            Some(Tok::Word(w)) => w.starts_with([',', '.', ';', '!']),
                            _ => false,
                        },
                    };
                    let src_start = self.out.len();
                    let save_mask = self.mask;
                    if self.mode == 3 {
                        // a line comment before a line break inside the source of a text-mode component: under CRLF the
                        // comment token takes the `\r` with it, which the reference semantics does not model (white space
                        // only; C17's T2 puts comments there)
                        self.mask &= !feat::LINE_COMMENT;
                    }

                    let (name, alias, q, note) = self.component_src(c, next_safe);
                    self.mask = save_mask;
                    if self.mode == 3 {
                        // R18 text mode: the component's source stays in the text as written (with soft breaks inside
                        // it read as written), without the comments inside it — like any other text
                        let mut src = String::new();
                        let mut at = src_start;
                        for (a, b) in self.comment_spans.iter().copied().filter(|(a, _)| *a >= src_start) {
                            src.push_str(&self.out[at..a]);
                            at = b;
                        }
                        src.push_str(&self.out[at..]);
                        // a line break inside the component's source stays as the file has it (LF or CRLF): marked here,
                        // resolved when the line endings of the whole text are decided
                        let src = src.replace('\n', "\u{1}");
                        pending.push_str(&src);
                        text_mode_src.push_str(&src);
                        self.constructs.push(if c.note.is_some() { "text_mode_component_with_note" } else { "text_mode_component" });
                        continue;
                    }
                    if self.mode != 1 {
                        let p = std::mem::take(&mut pending);
                        let pt = std::mem::take(&mut pending_toks);
                        self.push_text_items(&mut out_items, &p, &pt);
                    } else {
                        pending.clear();
                        pending_toks.clear();
                    }
                    match self.add_component(c, name, alias, q, note) {
                        Some(item) => out_items.push(item),
                        None => return,
                    }
                }
            }
        }
        // trailing blanks of the block stay in the text; optional trailing line comment
        self.enter(self.blk, 0xFFFF);
        if self.opt(feat::LINE_COMMENT, 1, 6) {
            self.emit(" ");
            pending.push(' ');
            let b = self.comment_body();
            self.emit_comment(&format!("--{b}"));
        }
        let _ = block_start;
        match self.mode {
            1 => {} // components mode: step not added
            3 => {
                self.cur_content.push(json!({"type": "text", "value": pending}));
                self.constructs.push("text_mode_block");
            }
            _ => {
                let p = std::mem::take(&mut pending);
                self.push_text_items(&mut out_items, &p, &pending_toks);
                if out_items.is_empty() {
                    self.reject = Some("step without items".into());
                    return;
                }
                self.cur_content.push(json!({"type": "step", "value": {"items": out_items, "number": self.step_no}}));
                self.step_no += 1;
            }
        }
    }

    fn para(&mut self, lines: &[Vec<Tok>]) {
        // R4
        let mut exp = String::new();
        for (i, l) in lines.iter().enumerate() {
            self.enter(self.blk, i as u64 + 1);
            let marker = i == 0 || self.rng.coin();
            if marker {
                self.emit(">");
                if self.rng.chance(4, 5) {
                    let ws = if self.opt(feat::MULTISPACE, 1, 4) { "   " } else { " " };
                    self.emit(ws);
                }
            }
            // no wraps inside a paragraph line: lines are explicit here
            let save = self.mask;
            self.mask &= !(feat::WRAP_TEXT);
            let raw = self.text_tokens(l, false, true);
            self.mask = save;
            exp.push_str(&raw);
            if i + 1 < lines.len() {
                self.emit("\n");
                exp.push(' ');
            }
        }
        self.cur_content.push(json!({"type": "text", "value": exp}));
        self.constructs.push(if self.mode == 1 { "paragraph_in_components_mode" } else { "paragraph" });
    }

    fn section(&mut self, name: &Option<Vec<String>>) {
        // R19: close the running section
        self.close_section();
        let style = if self.opt(feat::FENCE_STYLE, 2, 3) { self.rng.below(4) } else { 0 };
        let (open, close) = match style {
            0 => ("=", ""),
            1 => ("==", "=="),
            2 => ("=", "="),
            _ => ("===", "="),
        };
        self.emit(open);
        let mut exp = None;
        if let Some(n) = name {
            let sp = self.rng.coin() || style == 0;
            if sp {
                self.emit(" ");
            }
            // names inside a section line cannot wrap (single-line block)
            let raw = self.words(n, 0, feat::COMMENT_NAME);
            if !close.is_empty() && self.rng.coin() {
                self.emit(" ");
            }
            exp = Some(collapse(&raw));
        }
        self.emit(close);
        if self.opt(feat::LINE_COMMENT, 1, 6) {
            self.emit(" ");
            let b = self.comment_body();
            self.emit_comment(&format!("--{b}"));
        }
        self.cur_name = exp;
        self.step_no = 1;
        self.constructs.push(if name.is_some() { "named_section" } else { "unnamed_section" });
    }

    fn close_section(&mut self) {
        if self.cur_name.is_some() || !self.cur_content.is_empty() {
            let content = std::mem::take(&mut self.cur_content);
            self.sections.push(json!({"name": self.cur_name.take(), "content": content}));
        }
    }

    fn meta_line(&mut self, key_words: &[String], value_words: &[String], config: bool) {
        self.emit(">>");
        if !self.opt(feat::META_SPACING, 1, 3) {
            self.emit(" ");
        }
        let kraw = self.words(key_words, 0, 0);
        if self.opt(feat::META_SPACING, 1, 3) {
            self.emit(" ");
        }
        self.emit(":");
        if !self.opt(feat::META_SPACING, 1, 4) {
            self.emit(" ");
        }
        let vraw = self.words(value_words, 0, if config { 0 } else { feat::COMMENT_TEXT });
        if self.opt(feat::MULTISPACE, 1, 5) {
            self.emit("  ");
        }
        let key = collapse(&kraw);
        let value = vraw.trim().to_string();
        if self.has_front && !config {
            // R3: with front matter `>>` lines are ordinary text: the generator never does this
            self.reject = Some(">> with front matter".into());
            return;
        }
        if config {
            let v = value.as_str();
            match (key.as_str(), v) {
                ("[mode]" | "[define]", "all" | "default") => self.mode = 0,
                ("[mode]" | "[define]", "components" | "ingredients") => self.mode = 1,
                ("[mode]" | "[define]", "steps") => self.mode = 2,
                ("[mode]" | "[define]", "text") => self.mode = 3,
                ("[duplicate]", "new" | "default") => self.dup_ref = false,
                ("[duplicate]", "reference" | "ref") => self.dup_ref = true,
                _ => self.reject = Some("unknown config".into()),
            }
            self.constructs.push("mode_switch");
            return;
        }
        // R20
        if let Some(e) = self.meta.iter_mut().find(|(k, _)| *k == key) {
            e.1 = J::String(value.clone());
        } else {
            self.meta.push((key.clone(), J::String(value.clone())));
        }
        if matches!(key.as_str(), "servings" | "serves" | "yield") {
            // R22
            let parsed: Option<Vec<u32>> = value.split('|').map(|p| p.trim().parse::<u32>().ok()).collect();
            match parsed {
                Some(v) => self.servings = Some(v),
                // refused value: a warning; the entry stays in the metadata, the servings of the recipe stay what they were
                None => self.constructs.push("refused_servings_entry_kept_as_text"),
            }
        }
        self.constructs.push(if key.starts_with('[') { "bracketed_key_as_plain_metadata" } else { "arrow_metadata" });
    }

    fn front_matter(&mut self, f: &[(String, FrontVal)]) {
        self.emit("---");
        if self.rng.chance(1, 6) {
            self.emit(" ");
        }
        self.emit("\n");
        for (k, v) in f {
            self.emit(k);
            self.emit(":");
            let j = match v {
                FrontVal::Str(s) => {
                    let needs_quote = s.contains(": ") || s.starts_with('#') || s.starts_with(|c: char| c.is_ascii_digit());
                    if needs_quote || self.rng.chance(1, 3) {
                        if self.rng.coin() {
                            self.emit(&format!(" \"{s}\""));
                        } else {
                            self.emit(&format!(" '{s}'"));
                        }
                    } else {
                        self.emit(&format!(" {s}"));
                    }
                    J::String(s.clone())
                }
                FrontVal::Int(n) => {
                    self.emit(&format!(" {n}"));
                    json!(n)
                }
                FrontVal::Float(x) => {
                    self.emit(&format!(" {x}"));
                    json!(x)
                }
                FrontVal::Bool(b) => {
                    self.emit(&format!(" {b}"));
                    json!(b)
                }
                FrontVal::List(l) => {
                    if self.rng.coin() {
                        self.emit(&format!(" [{}]", l.join(", ")));
                    } else {
                        for e in l {
                            self.emit(&format!("\n  - {e}"));
                        }
                    }
                    json!(l)
                }
                FrontVal::IntList(l) => {
                    self.emit(&format!(" [{}]", l.iter().map(|x| x.to_string()).collect::<Vec<_>>().join(", ")));
                    json!(l)
                }
                FrontVal::Map(m) => {
                    for (a, b) in m {
                        self.emit(&format!("\n  {a}: {b}"));
                    }
                    J::Object(m.iter().map(|(a, b)| (a.clone(), J::String(b.clone()))).collect())
                }
            };
            if matches!(k.as_str(), "servings" | "serves" | "yield") {
                self.servings = match v {
                    FrontVal::Int(n) => Some(vec![*n as u32]),
                    FrontVal::IntList(l) => Some(l.iter().map(|x| *x as u32).collect()),
                    _ => None,
                };
            }
            self.meta.push((k.clone(), j));
            self.emit("\n");
        }
        self.emit("---");
        if self.rng.chance(1, 6) {
            self.emit("  ");
        }
        self.emit("\n");
        self.has_front = true;
        self.constructs.push("front_matter");
    }

    fn separator(&mut self, prev_single: bool, next_single: bool) {
        // R1/R2: what goes between two blocks
        let tight = (prev_single || next_single) && self.opt(feat::TIGHT_BLOCKS, 1, 2);
        self.emit("\n");
        if tight {
            return;
        }
        let mut n = 1;
        if self.opt(feat::BLANK_LINES, 1, 3) {
            n += self.rng.range(1, 2);
        }
        for k in 0..n {
            if k > 0 && self.opt(feat::COMMENT_LINES, 1, 2) {
                let b = self.comment_body();
                if self.rng.coin() {
                    self.emit_comment(&format!("--{b}"));
                } else {
                    self.emit_comment(&format!("[-{b}-]"));
                }
            } else if self.opt(feat::BLANK_LINES, 1, 4) {
                self.emit("  ");
            }
            self.emit("\n");
        }
        // a step followed by a step needs at least one empty line: n >= 1 guarantees it
    }
}

pub fn spell(spec: &Spec, seed: u64, mask: u32, level: u32) -> Spelled {
    let mut s = Sp {
        rng: Rng::new(seed),
        seed,
        blk: u64::MAX,
        itm: 0,
        loc: 0,
        mask,
        level,
        used: 0,
        out: String::new(),
        line_content: false,
        comment_spans: Vec::new(),
        constructs: Vec::new(),
        extended: spec.extended,
        ingredients: vec![],
        cookware: vec![],
        timers: vec![],
        inline: vec![],
        idefs: vec![],
        cdefs: vec![],
        sections: vec![],
        cur_name: None,
        cur_content: vec![],
        step_no: 1,
        mode: 0,
        dup_ref: false,
        meta: vec![],
        servings: None,
        has_front: false,
        reject: None,
        _p: std::marker::PhantomData,
    };
    s.enter(u64::MAX, 0);
    if let Some(f) = &spec.front {
        // white-space-only lines may come before the opening fence
        if s.opt(feat::LEADING_BLANK, 1, 6) {
            s.emit("\n");
            if s.rng.coin() {
                s.emit(" \t\n");
            }
        }
        s.front_matter(f);
    } else if s.opt(feat::LEADING_BLANK, 1, 6) {
        s.emit("\n");
        if s.rng.coin() {
            s.emit("  \n");
        }
    }
    let n = spec.blocks.len();
    for (i, b) in spec.blocks.iter().enumerate() {
        s.enter(i as u64, 0);
        match b {
            Block::Meta { key, value } => s.meta_line(key, value, false),
            Block::Config { key, value } => s.meta_line(&[key.clone()], &[value.clone()], true),
            Block::Section { name } => s.section(name),
            Block::Step(items) => s.step(items),
            Block::Para(lines) => s.para(lines),
        }
        if s.reject.is_some() {
            break;
        }
        let single = |b: &Block| matches!(b, Block::Meta { .. } | Block::Config { .. } | Block::Section { .. });
        if i + 1 < n {
            s.enter(i as u64, 0xFFFFF);
            s.separator(single(b), single(&spec.blocks[i + 1]));
        }
    }
    s.close_section();
    s.enter(u64::MAX - 1, 0);
    if !s.opt(feat::NO_FINAL_NEWLINE, 1, 3) {
        s.emit("\n");
        if s.opt(feat::BLANK_LINES, 1, 6) {
            s.emit("\n");
        }
    }
    let mut text = std::mem::take(&mut s.out);
    let raw_break = if s.opt(feat::CRLF, 1, 4) && !text.contains('\\') {
        text = text.replace('\n', "\r\n");
        "\r\n"
    } else {
        s.used &= !feat::CRLF;
        "\n"
    };
    fn resolve_breaks(v: &mut J, with: &str) {
        match v {
            J::String(t) if t.contains('\u{1}') => *t = t.replace('\u{1}', with),
            J::Array(a) => a.iter_mut().for_each(|x| resolve_breaks(x, with)),
            J::Object(o) => o.values_mut().for_each(|x| resolve_breaks(x, with)),
            _ => {}
        }
    }
    for sec in s.sections.iter_mut() {
        resolve_breaks(sec, raw_break);
    }
    let expected = if s.reject.is_some() {
        None
    } else {
        let map: serde_json::Map<String, J> = s.meta.iter().cloned().collect();
        Some(json!({
            "metadata": {"map": map},
            "sections": s.sections,
            "ingredients": s.ingredients,
            "cookware": s.cookware,
            "timers": s.timers,
            "inline_quantities": s.inline,
            "data": s.servings,
        }))
    };
    Spelled { text, expected, meta_order: s.meta.iter().map(|(k, _)| k.clone()).collect(), used: s.used, constructs: s.constructs, reject: s.reject }
}

/// first differing path between two JSON values (indices kept), or None
pub fn json_diff(a: &J, b: &J, path: &mut String) -> Option<(String, String, String)> {
    match (a, b) {
        (J::Object(x), J::Object(y)) => {
            for (k, v) in x {
                let l = path.len();
                path.push('.');
                path.push_str(k);
                match y.get(k) {
                    Some(w) => {
                        if let Some(d) = json_diff(v, w, path) {
                            return Some(d);
                        }
                    }
                    None => return Some((path.clone(), v.to_string(), "<missing>".into())),
                }
                path.truncate(l);
            }
            for k in y.keys() {
                if !x.contains_key(k) {
                    return Some((format!("{path}.{k}"), "<missing>".into(), y[k].to_string()));
                }
            }
            None
        }
        (J::Array(x), J::Array(y)) => {
            for (i, v) in x.iter().enumerate() {
                let l = path.len();
                path.push_str(&format!("[{i}]"));
                match y.get(i) {
                    Some(w) => {
                        if let Some(d) = json_diff(v, w, path) {
                            return Some(d);
                        }
                    }
                    None => return Some((path.clone(), v.to_string(), "<missing>".into())),
                }
                path.truncate(l);
            }
            if y.len() > x.len() {
                return Some((format!("{path}[{}]", x.len()), "<missing>".into(), y[x.len()].to_string()));
            }
            None
        }
        _ => {
            if a == b {
                None
            } else {
                Some((path.clone(), a.to_string(), b.to_string()))
            }
        }
    }
}

/// path with indices removed: the cause class
pub fn path_class(p: &str) -> String {
    let mut out = String::new();
    let mut skip = false;
    for c in p.chars() {
        match c {
            '[' => {
                skip = true;
                out.push_str("[]");
            }
            ']' => skip = false,
            _ if skip => {}
            _ => out.push(c),
        }
    }
    out
}
