pub mod alphabet;
pub mod seeds;
pub mod recipe;
