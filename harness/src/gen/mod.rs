pub mod alphabet;
pub mod seeds;
