//! Seed inputs taken from the repository at run time (canonical spec cases).

pub fn canonical_sources() -> Vec<String> {
    let mut out = Vec::new();
    let Ok(text) = std::fs::read_to_string("/repo/tests/canonical.yaml") else {
        return out;
    };
    let Ok(doc) = serde_yaml::from_str::<serde_yaml::Value>(&text) else {
        return out;
    };
    if let Some(tests) = doc.get("tests").and_then(|t| t.as_mapping()) {
        for (_, t) in tests {
            if let Some(src) = t.get("source").and_then(|s| s.as_str()) {
                out.push(src.to_string());
            }
        }
    }
    out
}
