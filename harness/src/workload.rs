//! Shared G2 workload: drives `f` with (input, ext, conv) cases.

use crate::core::{all_extension_subsets, Case, Ctx, Extensions};
use crate::gen::alphabet::{self, ALPHABET, SEEDS, SMALL};

pub struct G2 {
    /// exhaustive max length (symbols of SMALL) for quick / thorough
    pub exh_quick: u32,
    pub exh_thorough: u32,
    /// number of random / structured / mutation cases (total, split over shards)
    pub random_quick: u64,
    pub random_thorough: u64,
    /// how many seeded extension subsets besides empty/all
    pub extra_subsets: usize,
    /// both converters?
    pub both_converters: bool,
    pub alphabet: &'static [&'static str],
}

impl Default for G2 {
    fn default() -> Self {
        G2 {
            exh_quick: 3,
            exh_thorough: 4,
            random_quick: 60_000,
            random_thorough: 4_000_000,
            extra_subsets: 2,
            both_converters: true,
            alphabet: SMALL,
        }
    }
}

pub fn configs(ctx: &mut Ctx, extra: usize, both: bool) -> Vec<(u32, &'static str)> {
    let subsets = all_extension_subsets();
    let mut exts = vec![Extensions::empty().bits(), Extensions::all().bits()];
    for _ in 0..extra {
        exts.push(subsets[ctx.rng.below(subsets.len())].bits());
    }
    let mut v = Vec::new();
    for (i, e) in exts.iter().enumerate() {
        if both {
            // canonical pairing first, then the crossed ones
            v.push((*e, if i == 0 { "empty" } else { "bundled" }));
            v.push((*e, if i == 0 { "bundled" } else { "empty" }));
        } else {
            v.push((*e, if *e == 0 { "empty" } else { "bundled" }));
        }
    }
    v
}

/// Runs the G2 workload. `f` is called once per (input, config).
pub fn g2(ctx: &mut Ctx, p: &G2, kind: &str, mut f: impl FnMut(&mut Ctx, &Case)) {
    let cfgs = configs(ctx, p.extra_subsets, p.both_converters);
    ctx.notes.insert(
        "configs".into(),
        serde_json::json!(cfgs.iter().map(|(e, c)| format!("{e:#x}/{c}")).collect::<Vec<_>>()),
    );
    // 1. exhaustive short strings
    let max = if ctx.is_thorough() { p.exh_thorough } else { p.exh_quick };
    let total = alphabet::count_upto(p.alphabet.len(), max);
    ctx.notes.insert("exhaustive_max_symbols".into(), max.into());
    ctx.notes.insert("exhaustive_strings".into(), total.into());
    ctx.notes.insert("alphabet_size".into(), p.alphabet.len().into());
    let mut s = String::new();
    let mut idx = ctx.shard as u64;
    while idx < total {
        alphabet::nth(p.alphabet, idx, &mut s);
        for (e, c) in &cfgs {
            let case = Case::new(kind, s.as_str(), *e, c);
            f(ctx, &case);
        }
        ctx.count("inputs_exhaustive");
        idx += ctx.nshards as u64;
    }
    // 2. random beyond
    let n = ctx.budget(p.random_quick, p.random_thorough);
    for k in 0..n {
        let input = match k % 4 {
            0 => alphabet::random(ALPHABET, &mut ctx.rng, 4, 40),
            1 => alphabet::random_structured(ALPHABET, &mut ctx.rng, 30),
            2 => {
                let seed = SEEDS[ctx.rng.below(SEEDS.len())];
                let mut m = alphabet::mutate(seed, ALPHABET, &mut ctx.rng);
                for _ in 0..ctx.rng.below(3) {
                    m = alphabet::mutate(&m, ALPHABET, &mut ctx.rng);
                }
                m
            }
            _ => alphabet::random(p.alphabet, &mut ctx.rng, 5, 12),
        };
        let (e, c) = cfgs[ctx.rng.below(cfgs.len())];
        let case = Case::new(kind, input, e, c);
        f(ctx, &case);
        ctx.count("inputs_random");
    }
}
