//! C04 — every reported source location is in bounds, on char boundaries, faithful;
//! events in source order, not overlapping; tokens tile the input; reports render.

use crate::core::{Case, Ctx, Parsers};
use crate::gen::{alphabet, seeds};
use crate::workload::{self, G2};
use cooklang::error::SourceDiag;
use cooklang::parser::{self as p, Event, PullParser};
use cooklang::{Extensions, Span, Text};

pub struct SpanCheck<'a> {
    pub input: &'a str,
    pub problems: Vec<(String, String)>, // (cause, message)
    pub spans_seen: u64,
    pub fragments_seen: u64,
}

impl<'a> SpanCheck<'a> {
    pub fn new(input: &'a str) -> Self {
        SpanCheck { input, problems: Vec::new(), spans_seen: 0, fragments_seen: 0 }
    }
    fn bad(&mut self, cause: &str, msg: String) {
        if self.problems.len() < 8 {
            self.problems.push((cause.to_string(), msg));
        }
    }
    pub fn span(&mut self, what: &str, s: Span) {
        self.spans_seen += 1;
        let (a, b) = (s.start(), s.end());
        if a > b {
            self.bad("span_start_after_end", format!("{what}: {a}..{b}"));
        } else if b > self.input.len() {
            self.bad("span_out_of_bounds", format!("{what}: {a}..{b} with input length {}", self.input.len()));
        } else if !self.input.is_char_boundary(a) || !self.input.is_char_boundary(b) {
            self.bad("span_not_char_boundary", format!("{what}: {a}..{b}"));
        }
    }
    pub fn text(&mut self, what: &str, t: &Text) {
        self.span(what, t.span());
        let mut prev_end: Option<usize> = None;
        for f in t.fragments() {
            self.fragments_seen += 1;
            let s = f.span();
            self.span(&format!("{what}.fragment"), s);
            if s.end() <= self.input.len()
                && s.start() <= s.end()
                && self.input.is_char_boundary(s.start())
                && self.input.is_char_boundary(s.end())
                && &self.input[s.range()] != f.text()
            {
                self.bad("fragment_text_differs_from_slice", format!("{what}: fragment {:?} at {:?} but input has {:?}", f.text(), s, &self.input[s.range()]));
            }
            if let Some(pe) = prev_end {
                if s.start() < pe {
                    self.bad("fragments_out_of_order", format!("{what}: fragment at {:?} starts before previous end {pe}", s));
                }
            }
            prev_end = Some(s.end());
        }
    }
    fn quantity(&mut self, what: &str, q: &cooklang::Located<p::Quantity>) {
        self.span(&format!("{what}.quantity"), q.span());
        self.span(&format!("{what}.value"), q.value.value.span());
        if let Some(l) = q.value.scaling_lock {
            self.span(&format!("{what}.lock"), l);
        }
        if let Some(u) = &q.unit {
            self.text(&format!("{what}.unit"), u);
        }
    }
    pub fn ingredient(&mut self, i: &cooklang::Located<p::Ingredient>) {
        self.span("ingredient", i.span());
        self.span("ingredient.modifiers", i.modifiers.span());
        if let Some(d) = &i.intermediate_data {
            self.span("ingredient.intermediate", d.span());
        }
        self.text("ingredient.name", &i.name);
        if let Some(a) = &i.alias {
            self.text("ingredient.alias", a);
        }
        if let Some(q) = &i.quantity {
            self.quantity("ingredient", q);
        }
        if let Some(n) = &i.note {
            self.text("ingredient.note", n);
        }
    }
    pub fn cookware(&mut self, c: &cooklang::Located<p::Cookware>) {
        self.span("cookware", c.span());
        self.span("cookware.modifiers", c.modifiers.span());
        self.text("cookware.name", &c.name);
        if let Some(a) = &c.alias {
            self.text("cookware.alias", a);
        }
        if let Some(q) = &c.quantity {
            self.span("cookware.quantity", q.span());
            self.span("cookware.value", q.value.span());
            if let Some(l) = q.scaling_lock {
                self.span("cookware.lock", l);
            }
        }
        if let Some(n) = &c.note {
            self.text("cookware.note", n);
        }
    }
    pub fn timer(&mut self, t: &cooklang::Located<p::Timer>) {
        self.span("timer", t.span());
        if let Some(n) = &t.name {
            self.text("timer.name", n);
        }
        if let Some(q) = &t.quantity {
            self.quantity("timer", q);
        }
    }
    pub fn diag(&mut self, what: &str, d: &SourceDiag) {
        for (i, (s, _)) in d.labels.iter().enumerate() {
            self.span(&format!("{what}.label[{i}] of {:?}", d.message), *s);
        }
    }
}

/// span of a content event (None for Start/End/diagnostics)
pub fn event_span(e: &Event) -> Option<Span> {
    match e {
        Event::YAMLFrontMatter(t) => Some(t.span()),
        Event::Metadata { key, value } => Some(join(key.span(), value.span())),
        Event::Section { name } => name.as_ref().map(|t| t.span()),
        Event::Text(t) => Some(t.span()),
        Event::Ingredient(i) => Some(i.span()),
        Event::Cookware(i) => Some(i.span()),
        Event::Timer(i) => Some(i.span()),
        _ => None,
    }
}

fn join(a: Span, b: Span) -> Span {
    Span::from(a.start().min(b.start())..a.end().max(b.end()))
}

fn check_tokens(input: &str, problems: &mut Vec<(String, String)>) -> usize {
    let (offset, toks) = p::verif_tokens(input);
    let mut pos = offset;
    if offset > input.len() || !input.is_char_boundary(offset) {
        problems.push(("token_offset_bad".into(), format!("cooklang offset {offset}")));
        return 0;
    }
    for (kind, a, b) in &toks {
        if *a != pos {
            problems.push(("tokens_do_not_tile".into(), format!("{kind} starts at {a}, previous token ended at {pos}")));
            return toks.len();
        }
        if b < a || *b > input.len() || !input.is_char_boundary(*a) || !input.is_char_boundary(*b) {
            problems.push(("token_span_bad".into(), format!("{kind} {a}..{b}")));
            return toks.len();
        }
        if a == b {
            problems.push(("token_empty".into(), format!("{kind} {a}..{b}")));
        }
        let s = &input[*a..*b];
        let ok = match kind.as_str() {
            "MetadataStart" => s == ">>",
            "TextStep" => s == ">",
            "Colon" => s == ":",
            "At" => s == "@",
            "Hash" => s == "#",
            "Tilde" => s == "~",
            "Question" => s == "?",
            "Plus" => s == "+",
            "Minus" => s == "-",
            "Slash" => s == "/",
            "Star" => s == "*",
            "And" => s == "&",
            "Or" => s == "|",
            "Eq" => s == "=",
            "Percent" => s == "%",
            "OpenBrace" => s == "{",
            "CloseBrace" => s == "}",
            "OpenParen" => s == "(",
            "CloseParen" => s == ")",
            "Dot" => s == ".",
            "Newline" => s == "\n" || s == "\r\n",
            "Int" => s.bytes().all(|c| c.is_ascii_digit()) && (s == "0" || !s.starts_with('0')),
            "ZeroInt" => s.len() > 1 && s.starts_with('0') && s.bytes().all(|c| c.is_ascii_digit()),
            "Whitespace" => s.chars().all(|c| c.is_whitespace()),
            "LineComment" => s.starts_with("--") && !s.contains('\n'),
            "BlockComment" => s.starts_with("[-"),
            "Escaped" => s.starts_with('\\') && s.chars().count() <= 2,
            "Punctuation" => s.chars().count() == 1,
            "Word" => !s.contains(['\n', ' ', '\t']),
            _ => true,
        };
        if !ok {
            problems.push(("token_text_mismatch".into(), format!("{kind} {a}..{b} = {s:?}")));
        }
        pos = *b;
    }
    if pos != input.len() {
        problems.push(("tokens_do_not_tile".into(), format!("tokens end at {pos}, input length {}", input.len())));
    }
    toks.len()
}

pub fn check_case(ctx: &mut Ctx, ps: &mut Parsers, case: &Case) {
    ctx.begin(case);
    let input = case.input.as_str();
    let ext = Extensions::from_bits_retain(case.ext);
    let mut sc = SpanCheck::new(input);

    // H1: tokens tile the input
    let mut tok_problems = Vec::new();
    let ntok = match crate::core::guarded(|| {
        let mut pr = Vec::new();
        let n = check_tokens(input, &mut pr);
        (n, pr)
    }) {
        Ok((n, pr)) => {
            tok_problems = pr;
            n
        }
        Err(_) => {
            ctx.count("panic_in_tokens(C03)");
            0
        }
    };
    ctx.count_n("tokens_checked", ntok as u64);
    for (c, m) in tok_problems {
        ctx.violation(case, "tokens", &c, m);
    }

    // events
    let events: Vec<Event> = match crate::core::guarded(|| PullParser::new(input, ext).collect()) {
        Ok(ev) => ev,
        Err(p) => {
            // the parser cutting its input at one of its own offsets that is out of bounds or inside a character is this
            // property failing before any span is reported (other panics are C03's)
            if p.message.contains("char boundary") || p.message.contains("byte index") || p.message.contains("out of bounds") || p.message.contains("out of range") {
                ctx.violation(case, "spans", "parser_slices_input_at_a_bad_offset", format!("{} at {}", p.message, p.location));
            } else {
                ctx.count("panic_in_events(C03)");
            }
            return;
        }
    };
    let has_error = events.iter().any(|e| matches!(e, Event::Error(_)));
    let mut prev: Option<(Span, &'static str)> = None;
    let mut content_events = 0;
    for e in &events {
        match e {
            Event::YAMLFrontMatter(t) => sc.text("frontmatter", t),
            Event::Metadata { key, value } => {
                sc.text("metadata.key", key);
                sc.text("metadata.value", value);
            }
            Event::Section { name } => {
                if let Some(n) = name {
                    sc.text("section.name", n)
                }
            }
            Event::Text(t) => sc.text("text", t),
            Event::Ingredient(i) => sc.ingredient(i),
            Event::Cookware(i) => sc.cookware(i),
            Event::Timer(i) => sc.timer(i),
            Event::Error(d) => sc.diag("event.error", d),
            Event::Warning(d) => sc.diag("event.warning", d),
            _ => {}
        }
        if let Some(s) = event_span(e) {
            content_events += 1;
            let kind = match e {
                Event::YAMLFrontMatter(_) => "frontmatter",
                Event::Metadata { .. } => "metadata",
                Event::Section { .. } => "section",
                Event::Text(_) => "text",
                Event::Ingredient(_) => "ingredient",
                Event::Cookware(_) => "cookware",
                _ => "timer",
            };
            // order is only promised when the stream is trustworthy (no parser error)
            if !has_error {
                if let Some((ps_, pk)) = prev {
                    if s.start() < ps_.end() {
                        sc.bad("events_overlap_or_out_of_order", format!("{kind} at {s:?} after {pk} at {ps_:?}"));
                    }
                }
                prev = Some((s, kind));
            }
        }
    }
    if content_events >= 1 {
        ctx.nontrivial(case);
    }

    // AST (front matter is a known todo!() of build_ast: that is C03's business)
    if !matches!(events.first(), Some(Event::YAMLFrontMatter(_))) {
        if let Ok(r) = crate::core::guarded(|| cooklang::ast::build_ast(PullParser::new(input, ext))) {
            let (ast, report) = r.into_tuple();
            for d in report.iter() {
                sc.diag("ast.report", d);
            }
            if let Some(ast) = ast {
                for b in &ast.blocks {
                    match b {
                        p::Block::Metadata { key, value } => {
                            sc.text("ast.metadata.key", key);
                            sc.text("ast.metadata.value", value);
                        }
                        p::Block::Section { name } => {
                            if let Some(n) = name {
                                sc.text("ast.section", n)
                            }
                        }
                        p::Block::Step { items } => {
                            for it in items {
                                sc.span("ast.item", it.span());
                                match it {
                                    p::Item::Text(t) => sc.text("ast.text", t),
                                    p::Item::Ingredient(i) => sc.ingredient(i),
                                    p::Item::Cookware(i) => sc.cookware(i),
                                    p::Item::Timer(i) => sc.timer(i),
                                }
                            }
                        }
                        p::Block::TextBlock(ts) => {
                            for t in ts {
                                sc.text("ast.textblock", t)
                            }
                        }
                    }
                }
            }
        }
    }

    // diagnostics of the two public parses + rendering
    let parser = ps.parser(case.ext, &case.conv).clone();
    let mut reports = Vec::new();
    if let Ok(r) = crate::core::guarded(|| parser.parse(input)) {
        reports.push(("parse", r.into_report()));
    }
    if let Ok(r) = crate::core::guarded(|| parser.parse_metadata(input)) {
        reports.push(("parse_metadata", r.into_report()));
    }
    // the diagnostics that only exist when the caller's callbacks object: a refused recipe reference, a refused or
    // commented metadata entry
    {
        use cooklang::analysis::{CheckResult, ParseOptions};
        let opts = |kind: u8| ParseOptions {
            recipe_ref_check: Some(Box::new(move |_| if kind == 0 { CheckResult::Error(vec!["no such recipe".into()]) } else { CheckResult::Warning(vec!["check the path".into()]) })),
            metadata_validator: Some(Box::new(move |_, _, _| if kind == 0 { CheckResult::Warning(vec!["noted".into()]) } else { CheckResult::Error(vec!["refused".into()]) })),
        };
        for kind in 0..2u8 {
            if let Ok(r) = crate::core::guarded(|| parser.parse_with_options(input, opts(kind))) {
                reports.push(("parse_with_options", r.into_report()));
            }
        }
        if let Ok(r) = crate::core::guarded(|| parser.parse_metadata_with_options(input, opts(1))) {
            reports.push(("parse_metadata_with_options", r.into_report()));
        }
    }
    for (what, rep) in &reports {
        for d in rep.iter() {
            ctx.count("diagnostics_checked");
            sc.diag(what, d);
        }
        if rep.is_empty() {
            continue;
        }
        for color in [false, true] {
            match crate::core::guarded(|| {
                let mut buf = Vec::new();
                rep.write("r.cook", input, color, &mut buf).map(|_| buf.len())
            }) {
                Ok(Ok(_)) => ctx.count("reports_rendered"),
                Ok(Err(e)) => sc.bad("report_write_err", format!("{what}: {e}")),
                Err(p) => sc.bad("report_write_panics", format!("{what}: {} at {}", p.message, p.location)),
            }
        }
    }
    ctx.count_n("spans_checked", sc.spans_seen);
    ctx.count_n("fragments_checked", sc.fragments_seen);
    if ctx.evals % 5000 == 1 {
        ctx.sample(serde_json::json!({"input": case.input, "ext": case.ext, "events": events.len(), "spans": sc.spans_seen, "tokens": ntok}));
    }
    let problems = std::mem::take(&mut sc.problems);
    for (c, m) in problems {
        ctx.violation(case, "spans", &c, m);
    }
}

/// letters of 2, 3 and 4 bytes, a combining sequence, multi-byte white space (2 and 3 bytes), multi-byte punctuation,
/// a zero-width character
const MULTIBYTE: &[&str] = &["é", "€", "😀", "e\u{301}", "\u{a0}", "\u{3000}", "¿", "\u{200b}", "[-é-]", " -- é\n", "\\é", "（é）", "）", "｛１｝", "＠", "％", "｜"];

/// insert each multi-byte char at every token boundary of `seed` in turn
pub fn multibyte_sweep(seed: &str, mut f: impl FnMut(String)) {
    let (body, toks) = p::verif_tokens(seed);
    // inside a front matter (not tokenised): after every line break, blank and colon
    let mut cuts: Vec<usize> = seed[..body.min(seed.len())].char_indices().filter(|(_, c)| matches!(c, '\n' | ' ' | ':')).map(|(i, c)| i + c.len_utf8()).collect();
    cuts.extend(toks.iter().map(|t| t.1));
    cuts.push(seed.len());
    cuts.sort_unstable();
    cuts.dedup();
    for c in cuts {
        if !seed.is_char_boundary(c) {
            continue;
        }
        for m in MULTIBYTE {
            let mut s = String::with_capacity(seed.len() + 4);
            s.push_str(&seed[..c]);
            s.push_str(m);
            s.push_str(&seed[c..]);
            f(s);
        }
    }
}

/// diagnostics-rich inputs (every label-producing check) for the sweep
pub const DIAG_SEEDS: &[&str] = &[
    "@{} #{} ~{}", "@a{1/0}", "@a{%g}", "#pan{1%kg}", "~{5}", "~name", "~name{}", "@&&a{}", "#@pan{}", "~&t{1%min}",
    "#&(1)pan{}", "@a|{}", "@a|b|c{}", "~t|u{1%min}", "@&(~=1)d{}", "@&(-1)d{}", "@&(99999999)d{}", "@&()d{}",
    "@&(x)d{}", ">>: v", "@&nothing{}", "@a{} @&+a{}", "@a{} @&-a{}", "@a{} @&a{}(note)", "@a{}(n) @&a{}(note)",
    ">> [mode]: components\n@a{1}\n>> [mode]: steps\n@&a{2}", "@&(0)d{}", "a\n\n@&(~1)d{} @&(2)d{} @&(=1)d{}",
    ">> [mode]: bogus", ">> [duplicate]: bogus", "~{5%kg}", "~{5%foo}", "~{long%min}", "~t{1%min}(note)", "~t(note)",
    "@a{1%}", ">> k:", ">> [foo]: bar", ">> novalue", "= a = b", "@a{1%kg} @&a{1%l} @&a{2} @&a{1%foo} @&a{x}",
    ">> time: 1h\n>> prep time: 5m\n>> cook time: x", ">> servings: 1|1\n>> locale: zz_\n>> tags: a,a", "@ x", "#", "~",
    ">> [mode]: text\n@a{1} #b ~c{1%min}", ">> [mode]: components\nsome text @a{1}", "@a{=1} #b{=2} @c{=x}",
    ">> [duplicate]: ref\n@a{1} @&a{2} @+a{3} @+b{}", ">> [mode]: steps\n@&a @+b{} @b{}", "@a{1 1/0%g} @b{99999999999/2} @c{1.1.1}",
    // what a caller's callbacks may object to: recipe references (names written with blanks, comments and escapes before
    // the brace), metadata entries in both syntaxes
    "Napper de @@./sauces/beurre blanc {100%ml} et @@pâte  brisée{} ou @@a [- c -] b{} puis @@x\\ y{1}.", "---\ntitle: x\nservings: 2\n---\n@@dough{1} @./sides/rice{}", ">> source: y\n@@dough {}",
    "Moudre le @café puis verser le @&café(froid) dans la tasse.", "Use the #鍋 then the #&鍋(大) and @sel then @&sel(é).", "Compter environ 5\\€", "a\\é\nb\\€-- c\nc\\é[- c -] d\\é\\é e\\é@x{} f\\＠", "Écraser @ail{ %gousses} et #pot{ =%x} ~{= %min}.",
    "Boil the ~egg(soft) and ~x y(z) now.", "Rest ~{2% kg} and ~{5%  foo} and ~{1 %\tmin}.", "Let ~a{}(n) ~{1%min}(m)",
];

pub fn run(ctx: &mut Ctx) {
    let mut ps = Parsers::new();
    // multi-byte sweep over seeds
    let mut seeds: Vec<String> = alphabet::SEEDS.iter().map(|s| s.to_string()).collect();
    seeds.extend(DIAG_SEEDS.iter().map(|s| s.to_string()));
    seeds.extend(seeds::canonical_sources());
    // every construct of the diagnostics catalogue (C07): each label computation meets each multi-byte character
    seeds.extend(crate::mon::c07::CATALOGUE.iter().map(|e| crate::mon::c07::unmark(e.template).0));
    seeds.extend(["#pan{1 kg}", "#pan{2 big ones}(n)", "~{5 kg}", "~{5 }", "@a{1 }", "@a{ 1 %}", "@a{=1 kg}", ">> [mode] : x", "@a{}( n )", "#&a{}( n )"].map(String::from));
    seeds.extend(crate::mon::c03_targeted_small());
    // front matter in every position the splitter accepts or refuses: after blank lines, CRLF, closing fence at the end
    for fm in [
        "\n---\ntitle: Crème brûlée\n---\n\nMix @crème{200%ml} and @sucre.\n",
        "  \n\n---\ntitle: x\nservings: 4\n---\n>> k: v\n= s\n> p\n@a{1%kg}(n) #b ~{1%min}\n",
        "---\r\ntitle: x\r\nservings: 4\r\nauthor: grandma\r\n---\r\nMix @a{1}\r\nwith b\r\n\r\n~t{1%min}(n)\r\n",
        "---\ntitle: x\n---",
        "---\n---\nstep @a{1/0}",
        "step\n---\ntitle: x\n---\n@a{}",
    ] {
        seeds.push(fm.to_string());
    }
    ctx.notes.insert("sweep_seeds".into(), seeds.len().into());
    let cfgs: [(u32, &str); 3] = [
        (Extensions::empty().bits(), "empty"),
        (Extensions::all().bits(), "bundled"),
        (Extensions::COMPAT.bits(), "empty"),
    ];
    let mut k = 0u64;
    for doc in crate::mon::c05::fence_family() {
        for (e, c) in cfgs {
            if ctx.mine(k) {
                check_case(ctx, &mut ps, &Case::new("fence", doc.as_str(), e, c));
                ctx.count("inputs_fence_family");
            }
            k += 1;
        }
    }
    // front matters whose standard keys carry refused or conflicting values (labels point INTO the YAML text), in
    // every order of up to 4 lines, LF and CRLF, with multi-byte text of each width in the lines around them
    {
        const FM_LINES: &[&str] = &[
            "title: Café", "note: é", "x: 😀😀", "k: 漢字 ok", "prep time: 1 h", "cook time: 5 min", "time: 2 h", "servings: a|b", "locale: zz_",
            "tags: [a, a]", "author: <x>", "time: x", "\"servings\": 2|2", "source: {a: 1}", "\u{a0}time: 10 min", "\u{3000}servings: a|b", "",
        ];
        let maxlen = if ctx.is_thorough() { 5 } else { 4 };
        let total = alphabet::count_upto(FM_LINES.len(), maxlen);
        let mut idx = ctx.shard as u64;
        let mut lines = String::new();
        while idx < total {
            // decode idx into a sequence of lines
            let n = FM_LINES.len() as u64;
            let (mut rem, mut len) = (idx, 0u32);
            while rem >= n.pow(len) {
                rem -= n.pow(len);
                len += 1;
            }
            lines.clear();
            let mut ds = vec![0usize; len as usize];
            for i in (0..len as usize).rev() {
                ds[i] = (rem % n) as usize;
                rem /= n;
            }
            for d in ds {
                lines.push_str(FM_LINES[d]);
                lines.push('\n');
            }
            let doc = format!("---\n{lines}---\n\nA step with @a{{1}}.\n");
            for text in [doc.replace('\n', "\r\n"), doc] {
                for (e, c) in [cfgs[1], cfgs[0]] {
                    check_case(ctx, &mut ps, &Case::new("front_matter_diagnostics", text.as_str(), e, c));
                }
            }
            ctx.count("inputs_front_matter_diagnostics");
            idx += ctx.nshards as u64;
        }
    }
    // single tokens longer than 64 KiB followed by multi-byte content; diagnostics with more than 7 labels; a byte order mark
    {
        let long = "x".repeat(70_000);
        let mut big: Vec<String> = vec![
            format!("Mix [- {long} -] thé @sél{{1%g}}(né) wéll.\n\n~{{5}} thén @bake{{}}.\n"),
            format!("-- {long}\nThén @baké{{1%kg}} it ~é(x).\n"),
            format!("{long} thén @baké{{}} it ~é(x).\n"),
            format!("a{}b @é{{1/0}}\n", " ".repeat(70_000)),
            (0..12).map(|i| format!(">> kéy{i}: valué {i}\n")).collect::<String>() + "\nstép @a{1}\n",
        ];
        for doc in ["---\ntitle: Pancakes é\nservings: 4\n---\nMix thé @flour and the @milk in a #bowl.\n\nFry ~{5}\n", ">> k: v\nstép @a{1/0}\n", "stép ~é(x)\n"] {
            big.push(format!("{}{doc}", '\u{feff}'));
        }
        // lines longer than a terminal: a diagnostic on a line of 230-260 bytes whose multi-byte characters sit at every
        // offset around 240, and on a line of 300 two-byte characters (anything that clips or pads code by bytes)
        for pad in 228..=246 {
            big.push(format!("{}éé voilà é and let it rest for ~{{5}} before sérving.\n", "x".repeat(pad)));
        }
        big.push(format!("{} ~{{5}} {}\n", "é".repeat(300), "€".repeat(100)));
        big.push(format!("{}@a{{1/0}}{}\n", "😀".repeat(70), "é".repeat(200)));
        for (bi, doc) in big.iter().enumerate() {
            for (e, c) in cfgs {
                if ctx.mine(bi as u64) {
                    check_case(ctx, &mut ps, &Case::new("long_tokens_many_labels_bom", doc.as_str(), e, c));
                    ctx.count("inputs_long_tokens_many_labels_bom");
                }
            }
        }
    }
    for seed in &seeds {
        let mut variants = vec![seed.clone()];
        multibyte_sweep(seed, |s| variants.push(s));
        for v in variants {
            for (e, c) in cfgs {
                if ctx.mine(k) {
                    let case = Case::new("sweep", v.as_str(), e, c);
                    check_case(ctx, &mut ps, &case);
                    ctx.count("inputs_multibyte_sweep");
                }
                k += 1;
            }
        }
    }
    let p = G2 {
        exh_quick: 3,
        exh_thorough: 4,
        random_quick: 80_000,
        random_thorough: 3_000_000,
        extra_subsets: 1,
        both_converters: false,
        ..Default::default()
    };
    workload::g2(ctx, &p, "g2", |ctx, case| check_case(ctx, &mut ps, case));
}

pub fn replay(ctx: &mut Ctx, case: &Case) {
    let mut ps = Parsers::new();
    check_case(ctx, &mut ps, case);
}
