//! C10 — grouping and listing ingredients conserves quantities.

use crate::core::{Case, Ctx, Rng};
use crate::gen::recipe::{self as g, feat, GenOpts};
use cooklang::convert::PhysicalQuantity as PQ;
use cooklang::ingredient_list::IngredientList;
use cooklang::quantity::{GroupedQuantity, Number};
use cooklang::{Converter, CooklangParser, Extensions, Quantity, ScaledQuantity, ScaledRecipe, Value};
use serde_json::json;
use std::collections::BTreeMap;

#[derive(Default, Debug, Clone)]
pub struct Totals {
    known: BTreeMap<String, (f64, f64)>,
    /// the same totals with each unit's standard definition from the independent table (where it has one) instead of
    /// the converter's own ratio: a converter whose definitions are wrong conserves "its" amounts and still loses flour
    known_by_table: BTreeMap<String, (f64, f64)>,
    unknown: BTreeMap<String, (f64, f64)>,
    unitless: (f64, f64),
    texts: Vec<(String, Option<String>)>,
    scale: f64,
}

impl Totals {
    pub fn add(&mut self, conv: &Converter, q: &ScaledQuantity) {
        let (lo, hi) = match q.value() {
            Value::Text(t) => {
                self.texts.push((t.clone(), q.unit().map(String::from)));
                return;
            }
            Value::Number(n) => (n.value(), n.value()),
            Value::Range { start, end } => (start.value(), end.value()),
        };
        self.scale = self.scale.max(lo.abs()).max(hi.abs());
        match q.unit() {
            None => {
                self.unitless.0 += lo;
                self.unitless.1 += hi;
            }
            Some(u) => match crate::units::unit_by_exact_key(conv, u) {
                Some(unit) => {
                    let b = |x: f64| (x + unit.difference) * unit.ratio;
                    let e = self.known.entry(unit.physical_quantity.to_string()).or_insert((0.0, 0.0));
                    e.0 += b(lo);
                    e.1 += b(hi);
                    let (f, o) = match crate::units::def_by_symbol(unit.symbol()) {
                        Some(d) if d.q == unit.physical_quantity => (d.factor, d.offset),
                        _ => (unit.ratio, unit.difference),
                    };
                    let e = self.known_by_table.entry(unit.physical_quantity.to_string()).or_insert((0.0, 0.0));
                    e.0 += (lo + o) * f;
                    e.1 += (hi + o) * f;
                }
                None => {
                    let e = self.unknown.entry(u.to_string()).or_insert((0.0, 0.0));
                    e.0 += lo;
                    e.1 += hi;
                }
            },
        }
    }
    pub fn of<'a>(conv: &Converter, qs: impl Iterator<Item = &'a ScaledQuantity>) -> Totals {
        let mut t = Totals::default();
        for q in qs {
            t.add(conv, q);
        }
        t.texts.sort();
        t
    }
    pub fn merge(&mut self, o: &Totals) {
        for (k, v) in &o.known {
            let e = self.known.entry(k.clone()).or_insert((0.0, 0.0));
            e.0 += v.0;
            e.1 += v.1;
        }
        for (k, v) in &o.known_by_table {
            let e = self.known_by_table.entry(k.clone()).or_insert((0.0, 0.0));
            e.0 += v.0;
            e.1 += v.1;
        }
        for (k, v) in &o.unknown {
            let e = self.unknown.entry(k.clone()).or_insert((0.0, 0.0));
            e.0 += v.0;
            e.1 += v.1;
        }
        self.unitless.0 += o.unitless.0;
        self.unitless.1 += o.unitless.1;
        self.texts.extend(o.texts.iter().cloned());
        self.texts.sort();
        self.scale = self.scale.max(o.scale);
    }
    /// None if equal within tolerance
    pub fn diff(&self, o: &Totals) -> Option<String> {
        let close = |a: f64, b: f64| (a - b).abs() <= 1e-9 * a.abs().max(b.abs()).max(1e-12);
        let cmp = |name: &str, a: &BTreeMap<String, (f64, f64)>, b: &BTreeMap<String, (f64, f64)>| -> Option<String> {
            for k in a.keys().chain(b.keys()) {
                let x = a.get(k).copied().unwrap_or((0.0, 0.0));
                let y = b.get(k).copied().unwrap_or((0.0, 0.0));
                if !close(x.0, y.0) || !close(x.1, y.1) {
                    return Some(format!("{name} {k:?}: inputs total {x:?}, outputs total {y:?}"));
                }
            }
            None
        };
        if let Some(d) = cmp("quantity", &self.known, &o.known) {
            return Some(d);
        }
        // by the standard definitions: the shipped ratios carry 9 significant digits, hence the wider tolerance
        for k in self.known_by_table.keys().chain(o.known_by_table.keys()) {
            let x = self.known_by_table.get(k).copied().unwrap_or((0.0, 0.0));
            let y = o.known_by_table.get(k).copied().unwrap_or((0.0, 0.0));
            let close_t = |a: f64, b: f64| (a - b).abs() <= 1e-6 * a.abs().max(b.abs()).max(1e-12);
            if !close_t(x.0, y.0) || !close_t(x.1, y.1) {
                return Some(format!("quantity {k:?} by the standard unit definitions: inputs total {x:?}, outputs total {y:?}"));
            }
        }
        if let Some(d) = cmp("unknown unit", &self.unknown, &o.unknown) {
            return Some(d);
        }
        if !close(self.unitless.0, o.unitless.0) || !close(self.unitless.1, o.unitless.1) {
            return Some(format!("unitless: inputs {:?}, outputs {:?}", self.unitless, o.unitless));
        }
        if self.texts != o.texts {
            return Some(format!("text values: inputs {:?}, outputs {:?}", self.texts, o.texts));
        }
        None
    }
}

const UNITS: &[Option<&str>] = &[Some("g"), Some("kg"), Some("oz"), Some("lb"), Some("ml"), Some("l"), Some("cup"), Some("tsp"), Some("min"), Some("h"), Some("pinch"), Some("cans"), Some("x"), None, None, Some("T"), Some("t"), Some("Cans"), Some("dl"), Some("dag"), Some("cl"), Some("hg"), Some("gal"), Some("qt"), Some("pint"), Some("fl oz"), Some("tbsp"), Some("in"), Some("ft"), Some("d"), Some("s")];

fn rand_quantity(r: &mut Rng) -> ScaledQuantity {
    let num = |r: &mut Rng| -> Number {
        match r.below(4) {
            0 => Number::Regular((r.below(4000) as f64) / 8.0),
            1 => Number::Regular(r.log_uniform(1e-3, 1e4)),
            2 => {
                let den = *r.pick(&[2u32, 3, 4, 8]);
                Number::Fraction { whole: r.below(5) as u32, num: 1 + r.below(den as usize - 1) as u32, den, err: (r.f64() - 0.5) * 0.02 }
            }
            _ => {
                if r.chance(1, 12) {
                    // totals at and above 2^32 with a fractional part (whole parts of fitted fractions are u32)
                    Number::Regular(*r.pick(&[4294967295.5, 4294967296.25, 5000000000.5, 2147483648.75, 9007199254740992.0]))
                } else {
                    Number::Regular(r.below(20) as f64)
                }
            }
        }
    };
    let value = match r.below(8) {
        0 => Value::Text(r.pick(&["some", "a bit", "to taste"]).to_string()),
        1 | 2 => {
            let a = num(r);
            let b = num(r);
            Value::Range { start: a, end: b }
        }
        _ => Value::Number(num(r)),
    };
    Quantity::new(value, r.pick(UNITS).map(String::from))
}

fn permutations(n: usize) -> Vec<Vec<usize>> {
    fn rec(cur: &mut Vec<usize>, used: &mut Vec<bool>, n: usize, out: &mut Vec<Vec<usize>>) {
        if cur.len() == n {
            out.push(cur.clone());
            return;
        }
        for i in 0..n {
            if !used[i] {
                used[i] = true;
                cur.push(i);
                rec(cur, used, n, out);
                cur.pop();
                used[i] = false;
            }
        }
    }
    let mut out = Vec::new();
    rec(&mut Vec::new(), &mut vec![false; n], n, &mut out);
    out
}

fn multisets(ctx: &mut Ctx, conv: &Converter) {
    let n = ctx.budget(6_000, 4_000_000);
    multisets_n(ctx, conv, n)
}

fn multisets_n(ctx: &mut Ctx, conv: &Converter, n: u64) {
    for _ in 0..n {
        let seed = ctx.rng.next();
        let mut r = Rng::new(seed);
        let k = r.range(1, 12);
        let qs: Vec<ScaledQuantity> = (0..k).map(|_| rand_quantity(&mut r)).collect();
        let want = Totals::of(conv, qs.iter());
        let orders: Vec<Vec<usize>> = if k <= 4 {
            permutations(k)
        } else {
            (0..6)
                .map(|_| {
                    let mut o: Vec<usize> = (0..k).collect();
                    r.shuffle(&mut o);
                    o
                })
                .collect()
        };
        for (oi, order) in orders.iter().enumerate() {
            let case = Case::new("multiset", format!("{} quantities, order {order:?}", k), 0, "bundled").with(json!({"seed": seed, "order": order}));
            ctx.begin(&case);
            let res = crate::core::guarded(|| {
                let mut out: Vec<(&'static str, Totals)> = Vec::new();
                // plain adds
                let mut grp = GroupedQuantity::empty();
                for i in order {
                    grp.add(&qs[*i], conv);
                }
                out.push(("add", Totals::of(conv, grp.iter())));
                if grp.len() != grp.iter().count() || grp.is_empty() != (grp.len() == 0) {
                    out.push(("len_mismatch", Totals::default()));
                }
                // merge tree: split into up to 3 sub-groups in this order, merge them
                let mut subs: Vec<GroupedQuantity> = (0..3).map(|_| GroupedQuantity::empty()).collect();
                for (j, i) in order.iter().enumerate() {
                    subs[(j + oi) % 3].add(&qs[*i], conv);
                }
                let mut merged = GroupedQuantity::empty();
                for s in &subs {
                    merged.merge(s, conv);
                }
                out.push(("merge", Totals::of(conv, merged.iter())));
                let v = merged.clone().into_vec();
                out.push(("into_vec", Totals::of(conv, v.iter())));
                let mut fitted = grp.clone();
                let _ = fitted.fit(conv);
                out.push(("fit", Totals::of(conv, fitted.iter())));
                // a group that is fitted while it is being filled: half of the quantities, fit, the other half (added one
                // by one, or merged in as a group), fit again
                let (first, second) = order.split_at(order.len() / 2);
                let mut running = GroupedQuantity::empty();
                for i in first {
                    running.add(&qs[*i], conv);
                }
                let _ = running.fit(conv);
                let mut by_merge = running.clone();
                let mut rest = GroupedQuantity::empty();
                for i in second {
                    running.add(&qs[*i], conv);
                    rest.add(&qs[*i], conv);
                }
                out.push(("add_fit_add", Totals::of(conv, running.iter())));
                let _ = running.fit(conv);
                out.push(("add_fit_add_fit", Totals::of(conv, running.iter())));
                by_merge.merge(&rest, conv);
                out.push(("add_fit_merge", Totals::of(conv, by_merge.iter())));
                // the unit-less groups that hold cookware amounts: the same values (numbers, ranges, texts) added one by
                // one and merged from up to three sub-groups, also when a sub-group holds texts only or nothing
                let as_q = |vals: Vec<&Value>| -> Vec<ScaledQuantity> { vals.into_iter().map(|v| Quantity::new(v.clone(), None)).collect() };
                let mut gv = cooklang::quantity::GroupedValue::empty();
                let mut vsubs: Vec<cooklang::quantity::GroupedValue> = (0..3).map(|_| cooklang::quantity::GroupedValue::empty()).collect();
                for (j, i) in order.iter().enumerate() {
                    gv.add(qs[*i].value());
                    // texts go to one sub-group, numbers to the others: a text-only group merged into any group
                    let slot = if matches!(qs[*i].value(), Value::Text(_)) { oi % 3 } else { (j + oi + 1) % 3 };
                    vsubs[slot].add(qs[*i].value());
                }
                let mut vmerged = cooklang::quantity::GroupedValue::empty();
                for s in &vsubs {
                    vmerged.merge(s);
                }
                let mut into_text_only = vsubs[oi % 3].clone();
                into_text_only.merge(&vsubs[(oi + 1) % 3]);
                into_text_only.merge(&vsubs[(oi + 2) % 3]);
                out.push(("value_add", Totals::of(conv, as_q(gv.iter().collect()).iter())));
                out.push(("value_merge", Totals::of(conv, as_q(vmerged.iter().collect()).iter())));
                out.push(("value_merge_into_text_group", Totals::of(conv, as_q(into_text_only.iter().collect()).iter())));
                out
            });
            let want_values = Totals::of(conv, qs.iter().map(|q| Quantity::new(q.value().clone(), None)).collect::<Vec<ScaledQuantity>>().iter());
            match res {
                Err(p) => ctx.panic_violation(&case, "GroupedQuantity", p),
                Ok(outs) => {
                    let mut ok = true;
                    for (what, got) in outs {
                        if what == "len_mismatch" {
                            ctx.violation(&case, "multiset", "len_differs_from_iter", "GroupedQuantity::len() disagrees with iter().count()".into());
                            ok = false;
                        } else if let Some(d) = (if what.starts_with("value_") { &want_values } else { &want }).diff(&got) {
                            ctx.violation(&case, "multiset", &format!("not_conserved_after_{what}"), format!("{d}; inputs {:?}", qs.iter().map(|q| q.to_string()).collect::<Vec<_>>()));
                            ok = false;
                        }
                    }
                    if ok {
                        ctx.nontrivial(&case);
                        ctx.count("multiset_orders_ok");
                        if ctx.evals % 20_000 == 1 {
                            ctx.sample(json!({"quantities": qs.iter().map(|q| q.to_string()).collect::<Vec<_>>(), "order": order, "totals": format!("{want:?}")}));
                        }
                    }
                }
            }
        }
    }
}

fn quantities_of_definition<'a>(r: &'a ScaledRecipe, i: usize) -> Vec<&'a ScaledQuantity> {
    let igr = &r.ingredients[i];
    std::iter::once(igr.quantity.as_ref()).chain(igr.relation.referenced_from().iter().map(|j| r.ingredients[*j].quantity.as_ref())).flatten().collect()
}

/// expected shopping-list totals per display name for one recipe
fn expected_list(conv: &Converter, r: &ScaledRecipe, into: &mut BTreeMap<String, Totals>) {
    for (i, igr) in r.ingredients.iter().enumerate() {
        if !igr.relation.is_definition() {
            continue;
        }
        let m = igr.modifiers();
        if m.contains(cooklang::Modifiers::HIDDEN) || m.contains(cooklang::Modifiers::REF) {
            continue;
        }
        let t = Totals::of(conv, quantities_of_definition(r, i).into_iter());
        into.entry(igr.display_name().into_owned()).or_default().merge(&t);
    }
}

/// The same, with "which definition does a reference add to" and "is it hidden" taken from the generator's model of
/// the source text (reference semantics: the LAST definition of that name before the reference) instead of the parsed
/// relations; the quantities themselves are the recipe's.
fn expected_list_model(conv: &Converter, r: &ScaledRecipe, model: &serde_json::Value, into: &mut BTreeMap<String, Totals>) -> bool {
    let Some(ings) = model["ingredients"].as_array() else { return false };
    if ings.len() != r.ingredients.len() {
        return false;
    }
    for (i, m) in ings.iter().enumerate() {
        if m["relation"]["type"] != "definition" {
            continue;
        }
        let mods = m["modifiers"].as_str().unwrap_or("");
        if mods.contains("HIDDEN") || mods.contains("REF") {
            continue;
        }
        let refs = m["relation"]["referenced_from"].as_array().cloned().unwrap_or_default();
        let qs = std::iter::once(i).chain(refs.iter().filter_map(|j| j.as_u64().map(|j| j as usize))).filter_map(|j| r.ingredients.get(j).and_then(|x| x.quantity.as_ref()));
        let t = Totals::of(conv, qs);
        let display = m["alias"].as_str().or(m["name"].as_str()).unwrap_or("").to_string();
        into.entry(display).or_default().merge(&t);
    }
    true
}

/// Shopping lists of hand-written recipes whose ingredient names contain what other parts of the format give a meaning
/// to (a slash, a full stop, a file extension): listed under the name as written, each amount once.
fn named_lists(ctx: &mut Ctx, conv: &Converter) {
    let parser = CooklangParser::new(Extensions::all(), conv.clone());
    // (recipes, expected: display name -> grams)
    let cases: [(&[&str], &[(&str, f64)]); 5] = [
        (&["Add @salt/pepper mix{10%g} and @pepper mix{20%g}."], &[("salt/pepper mix", 10.0), ("pepper mix", 20.0)]),
        (&["Pour @Dr. Pepper{330%g}.", "Add @Dr. Oetker baking powder{15%g} and @Dr. Pepper{100%g}."], &[("Dr. Pepper", 430.0), ("Dr. Oetker baking powder", 15.0)]),
        (&["Mix @half/half{100%g} with @half{50%g} and @No. 5 flour{1%kg}, then @&half/half{20%g}."], &[("half/half", 120.0), ("half", 50.0), ("No. 5 flour", 1000.0)]),
        (&["Use @flour.cook{30%g} and @flour{70%g} and @a.b.c{5%g}."], &[("flour.cook", 30.0), ("flour", 70.0), ("a.b.c", 5.0)]),
        (&["Use @@./sauces/tomato sauce{200%g} and @tomato sauce{50%g}."], &[("tomato sauce", 250.0)]),
    ];
    for (recipes, expected) in cases {
        let case = Case::new("named_list", recipes.join("\n=====\n"), Extensions::all().bits(), "bundled");
        ctx.begin(&case);
        let res = crate::core::guarded(|| {
            let mut list = IngredientList::new();
            for t in recipes {
                let Some(rec) = parser.parse(t).into_output() else { return None };
                list.add_recipe(&rec.default_scale(), conv);
            }
            Some(list.iter().map(|(n, q)| (n.clone(), Totals::of(conv, q.iter()))).collect::<BTreeMap<String, Totals>>())
        });
        match res {
            Err(p) => ctx.panic_violation(&case, "IngredientList::add_recipe", p),
            Ok(None) => ctx.harness_errors.push(format!("C10: a hand-written recipe does not parse: {recipes:?}")),
            Ok(Some(got)) => {
                let mut bad = None;
                for (name, grams) in expected {
                    match got.get(*name).and_then(|t| t.known_by_table.get("mass")) {
                        Some((lo, _)) if (lo - grams).abs() <= 1e-6 * grams => {}
                        other => bad = Some(format!("{name:?}: expected {grams} g, the list has {other:?} (names listed: {:?})", got.keys().collect::<Vec<_>>())),
                    }
                }
                if got.len() != expected.len() && bad.is_none() {
                    bad = Some(format!("names listed {:?}, expected {:?}", got.keys().collect::<Vec<_>>(), expected.iter().map(|e| e.0).collect::<Vec<_>>()));
                }
                match bad {
                    Some(m) => ctx.violation(&case, "list", "list_of_handwritten_recipes_differs", m),
                    None => {
                        ctx.count("named_lists_ok");
                        ctx.nontrivial(&case);
                    }
                }
            }
        }
    }
}

fn recipes(ctx: &mut Ctx, conv: &Converter) {
    let parser = CooklangParser::new(Extensions::all(), conv.clone());
    let n = ctx.budget(4_000, 1_800_000);
    let (plain, mixed) = (GenOpts::extended(), GenOpts::extended_mixed());
    for it in 0..n {
        // half of the recipes let references change the quantity class (text after number, other units)
        let opts = if it % 2 == 0 { &plain } else { &mixed };
        let seed = ctx.rng.next();
        let mut r = Rng::new(seed);
        let nrec = r.range(1, 4);
        let mut texts = Vec::new();
        let mut scaled: Vec<ScaledRecipe> = Vec::new();
        let mut models: Vec<Option<serde_json::Value>> = Vec::new();
        for _ in 0..nrec {
            let spec = g::gen_spec(&mut r, opts);
            let sp = g::spell(&spec, r.next(), feat::ALL, 1);
            let Ok(res) = crate::core::guarded(|| parser.parse(&sp.text)) else { continue };
            if !res.is_valid() {
                continue;
            }
            let rec = res.into_output().unwrap();
            let s = if r.coin() { rec.default_scale() } else { rec.scale(*r.pick(&[0.5, 2.0, 3.0]), conv) };
            scaled.push(s);
            texts.push(sp.text);
            models.push(sp.expected);
        }
        // one recipe of the sequence again with the case of every letter flipped: the same names in another case are
        // different ingredients for the list (and for the aisle lookup)
        if !texts.is_empty() && r.chance(1, 3) {
            let flipped: String = texts[r.below(texts.len())].chars().map(|c| if c.is_lowercase() { c.to_uppercase().next().unwrap_or(c) } else { c.to_lowercase().next().unwrap_or(c) }).collect();
            if let Ok(res) = crate::core::guarded(|| parser.parse(&flipped)) {
                if res.is_valid() {
                    scaled.push(res.into_output().unwrap().default_scale());
                    texts.push(flipped);
                    models.push(None);
                    ctx.count("sequences_with_case_flipped_recipe");
                }
            }
        }
        if scaled.is_empty() {
            continue;
        }
        let joined = texts.join("\n=====\n");
        let case = Case::new("recipes", joined.as_str(), Extensions::all().bits(), "bundled");
        ctx.begin(&case);
        // (b) per recipe grouping
        for rec in &scaled {
            let res = crate::core::guarded(|| {
                let mut bad: Vec<(String, String)> = Vec::new();
                let groups = rec.group_ingredients(conv);
                let mut last = None;
                let defs: Vec<usize> = rec.ingredients.iter().enumerate().filter(|(_, i)| i.relation.is_definition()).map(|(i, _)| i).collect();
                let listed: Vec<usize> = groups.iter().map(|e| e.index).collect();
                if listed != defs {
                    bad.push(("entries_are_not_the_definitions_in_order".into(), format!("definitions {defs:?}, entries {listed:?}")));
                }
                for e in &groups {
                    if last.is_some_and(|l| l >= e.index) {
                        bad.push(("entries_out_of_recipe_order".into(), format!("{listed:?}")));
                    }
                    last = Some(e.index);
                    if !std::ptr::eq(e.ingredient, &rec.ingredients[e.index]) {
                        bad.push(("entry_ingredient_mismatch".into(), format!("entry {}", e.index)));
                    }
                    let want = Totals::of(conv, quantities_of_definition(rec, e.index).into_iter());
                    let got = Totals::of(conv, e.quantity.iter());
                    if let Some(d) = want.diff(&got) {
                        bad.push(("group_ingredients_not_conserved".into(), format!("ingredient {} {:?}: {d}", e.index, e.ingredient.name)));
                    }
                }
                // every quantity of a definition or regular reference is counted exactly once
                let mut all = Totals::default();
                for (i, igr) in rec.ingredients.iter().enumerate() {
                    let _ = i;
                    if igr.relation.is_definition() || igr.relation.is_regular_reference() {
                        if let Some(q) = &igr.quantity {
                            all.add(conv, q);
                        }
                    }
                }
                all.texts.sort();
                let mut got_all = Totals::default();
                for e in &groups {
                    got_all.merge(&Totals::of(conv, e.quantity.iter()));
                }
                if let Some(d) = all.diff(&got_all) {
                    bad.push(("recipe_total_not_conserved".into(), d));
                }
                // cookware
                let cg = rec.group_cookware();
                let cdefs: Vec<usize> = rec.cookware.iter().enumerate().filter(|(_, c)| c.relation.is_definition()).map(|(i, _)| i).collect();
                if cg.iter().map(|e| e.index).collect::<Vec<_>>() != cdefs {
                    bad.push(("cookware_entries_are_not_the_definitions".into(), String::new()));
                }
                for e in &cg {
                    let c = &rec.cookware[e.index];
                    let vals: Vec<&Value> = std::iter::once(c.quantity.as_ref()).chain(c.relation.referenced_from().iter().map(|j| rec.cookware[*j].quantity.as_ref())).flatten().collect();
                    let asq = |v: &Value| Quantity::new(v.clone(), None);
                    let want = Totals::of(conv, vals.iter().map(|v| asq(v)).collect::<Vec<_>>().iter());
                    let got = Totals::of(conv, e.amount.iter().map(asq).collect::<Vec<_>>().iter());
                    if let Some(d) = want.diff(&got) {
                        bad.push(("group_cookware_not_conserved".into(), format!("cookware {} {:?}: {d}", e.index, c.name)));
                    }
                }
                (bad, groups.len(), groups.iter().filter(|e| !e.ingredient.relation.referenced_from().is_empty()).count())
            });
            match res {
                Err(p) => ctx.panic_violation(&case, "group_ingredients", p),
                Ok((bad, ngroups, with_refs)) => {
                    ctx.count_n("ingredient_groups_checked", ngroups as u64);
                    ctx.count_n("ingredient_groups_with_references", with_refs as u64);
                    for (c, m) in bad {
                        ctx.violation(&case, "recipe", &c, m);
                    }
                }
            }
        }
        // (c) shopping list over the sequence
        let mut want: BTreeMap<String, Totals> = BTreeMap::new();
        for rec in &scaled {
            expected_list(conv, rec, &mut want);
        }
        let list = match crate::core::guarded(|| {
            let mut l = IngredientList::new();
            for rec in &scaled {
                l.add_recipe(rec, conv);
            }
            l
        }) {
            Ok(l) => l,
            Err(p) => {
                ctx.panic_violation(&case, "IngredientList::add_recipe", p);
                continue;
            }
        };
        let got: BTreeMap<String, Totals> = list.iter().map(|(n, q)| (n.clone(), Totals::of(conv, q.iter()))).collect();
        let mut ok = true;
        for name in want.keys().chain(got.keys()) {
            match (want.get(name), got.get(name)) {
                (Some(w), Some(g_)) => {
                    if let Some(d) = w.diff(g_) {
                        ctx.violation(&case, "list", "list_totals_differ", format!("{name:?}: {d}"));
                        ok = false;
                    }
                }
                (None, Some(_)) => {
                    ctx.violation(&case, "list", "hidden_or_reference_only_listed", format!("{name:?} is listed but no listable definition has that display name"));
                    ok = false;
                }
                (Some(_), None) => {
                    ctx.violation(&case, "list", "listable_ingredient_missing", format!("{name:?} is not in the list"));
                    ok = false;
                }
                _ => {}
            }
        }
        ctx.count_n("list_entries_checked", got.len() as u64);
        // the same list against the attribution of the source model
        let mut want_m: BTreeMap<String, Totals> = BTreeMap::new();
        if models.iter().all(|m| m.is_some()) && scaled.iter().zip(&models).all(|(rec, m)| expected_list_model(conv, rec, m.as_ref().unwrap(), &mut want_m)) {
            ctx.count("lists_compared_with_source_model");
            for name in want_m.keys().chain(got.keys()) {
                match (want_m.get(name), got.get(name)) {
                    (Some(w), Some(g_)) => {
                        if let Some(d) = w.diff(g_) {
                            ctx.violation(&case, "list", "list_totals_differ_from_source_model", format!("{name:?}: {d}"));
                            ok = false;
                        }
                    }
                    (None, Some(_)) | (Some(_), None) => {
                        ctx.violation(&case, "list", "list_names_differ_from_source_model", format!("{name:?}: model has it: {}, list has it: {}", want_m.contains_key(name), got.contains_key(name)));
                        ok = false;
                    }
                    _ => {}
                }
            }
        }
        // (d) aisle configurations built from the listed names
        let names: Vec<String> = got.keys().cloned().collect();
        if !names.is_empty() {
            for _ in 0..3 {
                let (conf_text, collision) = aisle_for(&mut r, &names);
                let Ok(aisle) = cooklang::aisle::parse(&conf_text) else {
                    ctx.count("aisle_config_rejected(generator)");
                    continue;
                };
                let case2 = Case::new("categorize", format!("{joined}\n#####\n{conf_text}"), Extensions::all().bits(), "bundled");
                let cat = match crate::core::guarded(|| {
                    let mut l = IngredientList::new();
                    for rec in &scaled {
                        l.add_recipe(rec, conv);
                    }
                    l.categorize(&aisle)
                }) {
                    Ok(c) => c,
                    Err(p) => {
                        ctx.panic_violation(&case2, "categorize", p);
                        continue;
                    }
                };
                ctx.evals += 1;
                let mut total_in = Totals::default();
                for t in got.values() {
                    total_in.merge(t);
                }
                let mut total_out = Totals::default();
                let mut entries = 0;
                for (_, l) in cat.iter() {
                    for (_, q) in l.iter() {
                        total_out.merge(&Totals::of(conv, q.iter()));
                        entries += 1;
                    }
                }
                // the by-value iterator yields the same split as the borrowing one (names per category, and the same totals)
                let by_ref: Vec<(String, Vec<String>)> = cat.iter().map(|(c, l)| (c.to_string(), l.iter().map(|(n, _)| n.clone()).collect())).collect();
                if let Ok((by_val, val_total)) = crate::core::guarded(|| {
                    let mut l2 = IngredientList::new();
                    for rec in &scaled {
                        l2.add_recipe(rec, conv);
                    }
                    let mut t = Totals::default();
                    let v: Vec<(String, Vec<String>)> = l2
                        .categorize(&aisle)
                        .into_iter()
                        .map(|(c, l)| {
                            for (_, q) in l.iter() {
                                t.merge(&Totals::of(conv, q.iter()));
                            }
                            (c, l.iter().map(|(n, _)| n.clone()).collect::<Vec<String>>())
                        })
                        .collect();
                    (v, t)
                }) {
                    let mut ref_total = Totals::default();
                    for (_, l) in cat.iter() {
                        for (_, q) in l.iter() {
                            ref_total.merge(&Totals::of(conv, q.iter()));
                        }
                    }
                    if by_val != by_ref || ref_total.diff(&val_total).is_some() {
                        ctx.violation(&case2, "categorize", "into_iter_differs_from_iter", format!("iter(): {by_ref:?}; into_iter(): {by_val:?}; totals differ: {:?}", ref_total.diff(&val_total)));
                        ok = false;
                    } else {
                        ctx.count("categorize_into_iter_ok");
                    }
                }
                if let Some(d) = total_in.diff(&total_out) {
                    let cause = if collision { "categorize_not_conserved|synonym_collision" } else { "categorize_not_conserved|other" };
                    ctx.violation(&case2, "categorize", cause, format!("{d}; aisle config {conf_text:?}; listed names {names:?}"));
                    ok = false;
                } else {
                    ctx.count(if collision { "categorize_ok_with_collision" } else { "categorize_ok" });
                }
                // each name lands in the category of its line (or other)
                let info = aisle.ingredients_info();
                for (catname, l) in cat.iter() {
                    for (n, _) in l.iter() {
                        let fine = if catname == "other" && !info.values().any(|i| i.category == "other") {
                            names.contains(n) && !info.contains_key(n.as_str())
                        } else {
                            info.values().any(|i| i.category == catname && i.common_name == n)
                        };
                        if !fine {
                            ctx.violation(&case2, "categorize", "entry_in_wrong_category", format!("{n:?} under {catname:?} with config {conf_text:?}"));
                        }
                    }
                }
                let _ = entries;
            }
        }
        if ok {
            ctx.nontrivial(&case);
        }
    }
}

/// an aisle file built from the listed names; returns (text, two listed names share a line)
fn aisle_for(r: &mut Rng, names: &[String]) -> (String, bool) {
    let usable: Vec<&String> = names.iter().filter(|n| !n.contains(['|', '[', ']', '\n', '\r']) && !n.contains("//") && n.trim() == n.as_str() && !n.is_empty()).collect();
    let mut lines: Vec<Vec<String>> = Vec::new();
    let mut collision = false;
    let mut used: Vec<&String> = Vec::new();
    for n in &usable {
        match r.below(5) {
            0 => {} // absent
            1 | 2 => {
                lines.push(vec![(*n).clone(), format!("{n} (syn)")]);
                used.push(n);
            }
            3 => {
                lines.push(vec![format!("common of {n}"), (*n).clone()]);
                used.push(n);
            }
            _ => {
                // same line as a previously used listed name
                if let Some(l) = lines.iter_mut().find(|l| l.iter().any(|x| used.iter().any(|u| *u == x))) {
                    l.push((*n).clone());
                    collision = true;
                } else {
                    lines.push(vec![(*n).clone()]);
                }
                used.push(n);
            }
        }
    }
    let mut s = String::new();
    let cats = ["produce", "dairy", "other stuff"];
    for (i, l) in lines.iter().enumerate() {
        if i % 2 == 0 {
            s.push_str(&format!("[{}{}]\n", cats[(i / 2) % 3], i / 6));
        }
        s.push_str(&l.join(" | "));
        s.push('\n');
    }
    (s, collision)
}

pub fn run(ctx: &mut Ctx) {
    let conv = Converter::bundled();
    // a converter in which two different units have keys that differ only in case (T = tablespoon, t = teaspoon)
    if let Some(layer) = toml::from_str::<cooklang::convert::UnitsFile>("[extend.units]\ntbsp = { aliases = [\"T\"] }\ntsp = { aliases = [\"t\"] }\ng = { aliases = [\"gr\"] }\nl = { names = [\"litro\", \"litros\"] }\n").ok() {
        if let Some(c2) = Converter::builder().with_units_file(cooklang::convert::UnitsFile::bundled()).ok().and_then(|b| b.with_units_file(layer).ok()).and_then(|b| b.finish().ok()) {
            let keep = ctx.tier;
            multisets_n(ctx, &c2, ctx.budget(1_500, 900_000));
            ctx.count("multisets_with_case_differing_unit_keys");
            let _ = keep;
        }
    }
    if ctx.shard == 0 {
        named_lists(ctx, &conv);
    }
    multisets(ctx, &conv);
    recipes(ctx, &conv);
}

pub fn replay(ctx: &mut Ctx, case: &Case) {
    let conv = Converter::bundled();
    // re-run the whole generated case from its seed where available
    if case.kind == "multiset" {
        let seed = case.params["seed"].as_u64().unwrap_or(0);
        let mut r = Rng::new(seed);
        let k = r.range(1, 12);
        let qs: Vec<ScaledQuantity> = (0..k).map(|_| rand_quantity(&mut r)).collect();
        let order: Vec<usize> = case.params["order"].as_array().map(|a| a.iter().map(|x| x.as_u64().unwrap() as usize).collect()).unwrap_or_default();
        let want = Totals::of(&conv, qs.iter());
        let mut grp = GroupedQuantity::empty();
        for i in &order {
            grp.add(&qs[*i], &conv);
        }
        ctx.begin(case);
        if let Some(d) = want.diff(&Totals::of(&conv, grp.iter())) {
            ctx.violation(case, "multiset", "not_conserved_after_add", d);
        }
        let mut f = grp.clone();
        let _ = f.fit(&conv);
        if let Some(d) = want.diff(&Totals::of(&conv, f.iter())) {
            ctx.violation(case, "multiset", "not_conserved_after_fit", d);
        }
        return;
    }
    // recipes / categorize: the input holds the recipe texts (and the aisle file)
    let (recipes_part, aisle_part) = match case.input.split_once("\n#####\n") {
        Some((a, b)) => (a, Some(b)),
        None => (case.input.as_str(), None),
    };
    let parser = CooklangParser::new(Extensions::all(), conv.clone());
    let scaled: Vec<ScaledRecipe> = recipes_part.split("\n=====\n").filter_map(|t| parser.parse(t).into_output()).map(|r| r.default_scale()).collect();
    ctx.begin(case);
    let mut list = IngredientList::new();
    let mut want: BTreeMap<String, Totals> = BTreeMap::new();
    for rec in &scaled {
        list.add_recipe(rec, &conv);
        expected_list(&conv, rec, &mut want);
    }
    let mut total_in = Totals::default();
    for (n, q) in list.iter() {
        let t = Totals::of(&conv, q.iter());
        if let Some(w) = want.get(n) {
            if let Some(d) = w.diff(&t) {
                ctx.violation(case, "list", "list_totals_differ", format!("{n:?}: {d}"));
            }
        }
        total_in.merge(&t);
    }
    if let Some(a) = aisle_part {
        if let Ok(aisle) = cooklang::aisle::parse(a) {
            let names: Vec<String> = list.iter().map(|(n, _)| n.clone()).collect();
            let info = aisle.ingredients_info();
            let mut commons: Vec<&str> = names.iter().filter_map(|n| info.get(n.as_str()).map(|i| i.common_name)).collect();
            let before = commons.len();
            commons.sort();
            commons.dedup();
            let collision = commons.len() != before;
            let cat = list.categorize(&aisle);
            let mut total_out = Totals::default();
            for (_, l) in cat.iter() {
                for (_, q) in l.iter() {
                    total_out.merge(&Totals::of(&conv, q.iter()));
                }
            }
            if let Some(d) = total_in.diff(&total_out) {
                let cause = if collision { "categorize_not_conserved|synonym_collision" } else { "categorize_not_conserved|other" };
                ctx.violation(case, "categorize", cause, d);
            }
        }
    }
}
