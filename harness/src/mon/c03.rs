//! C03 — no input makes a public entry point panic, overflow or hang.
//!
//! Every operation runs inside its own `catch_unwind`; the anchored loops run
//! under a logical step budget (hook `verif::tick`); event streams are bounded.

use crate::core::{Case, Ctx, Parsers};
use crate::workload::{self, G2};
use cooklang::convert::System;
use cooklang::ingredient_list::IngredientList;
use cooklang::parser::{Event, PullParser};
use cooklang::{Extensions, ScaledRecipe};

const AISLE: &str = "[veg]\ntomato|tomatoes\na|b\n[other]\nflour\nsalt|é\n";

pub fn fuel_for(input: &str) -> u64 {
    64 * (input.len() as u64 + 16)
}

/// Consumers of a scaled recipe; each under its own guard.
pub fn consume_scaled(ctx: &mut Ctx, case: &Case, ps: &Parsers, tag: &str, mut scaled: ScaledRecipe) {
    let conv = ps.conv(&case.conv).clone();
    ctx.op(case, &format!("{tag}.json"), || serde_json::to_string(&scaled).map(|s| s.len()).unwrap_or(0));
    ctx.op(case, &format!("{tag}.group_ingredients"), || {
        let g = scaled.group_ingredients(&conv);
        let mut n = 0;
        for e in &g {
            n += format!("{}", e.quantity).len();
            n += e.quantity.iter().count();
            let _ = e.quantity.clone().into_vec();
            let _ = e.ingredient.display_name();
        }
        n
    });
    ctx.op(case, &format!("{tag}.group_cookware"), || {
        let g = scaled.group_cookware();
        g.iter().map(|e| format!("{}", e.amount).len() + e.cookware.display_name().len()).sum::<usize>()
    });
    ctx.op(case, &format!("{tag}.ingredient_list"), || {
        let mut l = IngredientList::from_recipe(&scaled, &conv);
        l.add_recipe(&scaled, &conv);
        l.add_recipe(&scaled, &conv);
        let n = l.iter().count();
        let aisle = cooklang::aisle::parse(AISLE).expect("static aisle");
        let cat = l.categorize(&aisle);
        n + cat.iter().map(|(_, l)| l.iter().count()).sum::<usize>()
    });
    ctx.op(case, &format!("{tag}.display"), || {
        let mut n = 0;
        for i in &scaled.ingredients {
            if let Some(q) = &i.quantity {
                n += format!("{q} {q:#}").len();
            }
        }
        for c in &scaled.cookware {
            if let Some(q) = &c.quantity {
                n += format!("{q}").len();
            }
        }
        for t in &scaled.timers {
            if let Some(q) = &t.quantity {
                n += format!("{q}").len();
            }
        }
        for q in &scaled.inline_quantities {
            n += format!("{q}").len();
        }
        n
    });
    // per component: grouping through the model's own helpers, and every per-quantity operation of the public API
    ctx.op(case, &format!("{tag}.model_helpers"), || {
        let mut n = 0usize;
        for i in scaled.ingredients.iter().filter(|i| i.relation.is_definition()) {
            n += i.all_quantities(&scaled.ingredients).count();
            n += i.group_quantities(&scaled.ingredients, &conv).len();
        }
        for c in scaled.cookware.iter().filter(|c| c.relation.is_definition()) {
            n += c.all_amounts(&scaled.cookware).count();
            n += c.group_amounts(&scaled.cookware).len();
        }
        n
    });
    ctx.op(case, &format!("{tag}.quantity_ops"), || {
        use cooklang::convert::ConvertTo;
        let mut n = 0usize;
        let qs: Vec<&cooklang::Quantity> = scaled.ingredients.iter().filter_map(|i| i.quantity.as_ref()).chain(scaled.timers.iter().filter_map(|t| t.quantity.as_ref())).chain(scaled.inline_quantities.iter()).take(12).collect();
        for (k, q) in qs.iter().enumerate() {
            let mut a = (*q).clone();
            let _ = a.fit(&conv);
            let mut b = (*q).clone();
            n += b.try_fraction(&conv) as usize;
            for target in ["kg", "l", "tsp", "°F", "min", "cm", "lb", "no such unit", ""] {
                let mut c = (*q).clone();
                n += c.convert(ConvertTo::Unit(cooklang::convert::ConvertUnit::Key(target)), &conv).is_ok() as usize;
            }
            let mut d = (*q).clone();
            let _ = d.convert(ConvertTo::SameSystem, &conv);
            let _ = q.unit_info(&conv);
            if let Some(other) = qs.get(k + 1) {
                let _ = q.compatible_unit(other, &conv);
                n += q.try_add(other, &conv).is_ok() as usize;
            }
            n += format!("{q} {q:?}").len();
        }
        n
    });
    ctx.op(case, &format!("{tag}.grouped_quantity_ops"), || {
        let mut g = cooklang::quantity::GroupedQuantity::empty();
        for q in scaled.ingredients.iter().filter_map(|i| i.quantity.as_ref()) {
            g.add(q, &conv);
        }
        let mut g2 = g.clone();
        g2.merge(&g, &conv);
        let _ = g2.fit(&conv);
        format!("{g2} {}", g2.len()).len() + g2.into_vec().len()
    });
    ctx.op(case, &format!("{tag}.add_ingredient"), || {
        let mut l = IngredientList::new();
        for i in &scaled.ingredients {
            if let Some(q) = &i.quantity {
                let mut g = cooklang::quantity::GroupedQuantity::empty();
                g.add(q, &conv);
                l.add_ingredient(i.display_name().into_owned(), &g, &conv);
            }
        }
        l.iter().count()
    });
    for sys in [System::Metric, System::Imperial] {
        let r = ctx.op(case, &format!("{tag}.convert.{sys}"), || {
            let errs = scaled.convert(sys, &conv);
            errs.iter().map(|e| e.to_string().len()).sum::<usize>()
        });
        if r.is_none() {
            return;
        }
        ctx.op(case, &format!("{tag}.convert.{sys}.json"), || {
            serde_json::to_string(&scaled).map(|s| s.len()).unwrap_or(0)
        });
        ctx.op(case, &format!("{tag}.convert.{sys}.group"), || scaled.group_ingredients(&conv).len());
    }
}

pub fn check_case(ctx: &mut Ctx, ps: &mut Parsers, case: &Case) {
    ctx.begin(case);
    let input = case.input.as_str();
    let ext = Extensions::from_bits_retain(case.ext);
    let parser = ps.parser(case.ext, &case.conv).clone();
    let conv = parser.converter().clone();
    let fuel = fuel_for(input);

    // raw event stream, bounded
    let bound = 4 * input.len() + 16;
    let ev = ctx.op(case, "events", || {
        cooklang::verif::arm(fuel);
        let mut n = 0usize;
        let mut errs = 0usize;
        for e in PullParser::new(input, ext) {
            n += 1;
            if matches!(e, Event::Error(_)) {
                errs += 1;
            }
            if n > bound {
                return Err(n);
            }
        }
        Ok((n, errs))
    });
    match ev {
        Some(Err(n)) => ctx.violation(case, "events", "event_count_unbounded", format!("more than {n} events for {} bytes", input.len())),
        Some(Ok((n, _))) if n >= 2 => ctx.nontrivial(case),
        _ => {}
    }
    ctx.op(case, "meta_events", || {
        cooklang::verif::arm(fuel);
        PullParser::new(input, ext).into_meta_iter().take(bound + 1).count()
    });
    ctx.op(case, "build_ast", || {
        cooklang::verif::arm(fuel);
        let r = cooklang::ast::build_ast(PullParser::new(input, ext));
        let (ast, report) = r.into_tuple();
        let n = ast.map(|a| serde_json::to_string(&a).map(|s| s.len()).unwrap_or(0)).unwrap_or(0);
        n + report.iter().count()
    });

    // metadata only
    let m = ctx.op(case, "parse_metadata", || {
        cooklang::verif::arm(fuel);
        parser.parse_metadata(input)
    });
    if let Some(m) = m {
        let (meta, report) = m.into_tuple();
        render(ctx, case, "parse_metadata.report", &report, input);
        if let Some(meta) = meta {
            accessors(ctx, case, "parse_metadata", &meta, &conv);
        }
    }

    // full parse
    let r = ctx.op(case, "parse", || {
        cooklang::verif::arm(fuel);
        parser.parse(input)
    });
    let Some(r) = r else { return };
    ctx.count(if r.is_valid() { "parse_valid" } else if r.has_output() { "parse_invalid_with_output" } else { "parse_no_output" });
    let (out, report) = r.into_tuple();
    render(ctx, case, "parse.report", &report, input);
    let Some(recipe) = out else { return };
    accessors(ctx, case, "parse", &recipe.metadata, &conv);
    ctx.op(case, "recipe.json", || serde_json::to_string(&recipe).map(|s| s.len()).unwrap_or(0));
    ctx.op(case, "recipe.display", || {
        let mut n = 0;
        for i in &recipe.ingredients {
            if let Some(q) = &i.quantity {
                n += format!("{q}").len();
            }
            n += i.display_name().len();
        }
        n
    });
    let recipe_has_servings = recipe.servings().is_some();
    if let Some(s) = ctx.op(case, "default_scale", || recipe.default_scale()) {
        consume_scaled(ctx, case, ps, "default_scale", s);
    }
    // scaling consumes the recipe: re-parse per factor
    let factors: &[f64] = if ctx.is_thorough() { &[0.5, 3.0, 1e-9, 1e9] } else { &[0.5, 1e9] };
    for f in factors {
        let Some(r) = ctx.op(case, "parse", || parser.parse(input).into_output()) else { return };
        let Some(r) = r else { return };
        if let Some(s) = ctx.op(case, "scale", || r.scale(*f, &conv)) {
            consume_scaled(ctx, case, ps, "scale", s);
        }
    }
    // call sequences on the scalable recipe: set_servings (empty, zero, huge) then scale_to_servings
    for list in [vec![], vec![0], vec![u32::MAX, 1], vec![3, 3]] {
        if let Some(Some(mut r)) = ctx.op(case, "parse", || parser.parse(input).into_output()) {
            let l2 = list.clone();
            if ctx.op(case, "set_servings", || r.set_servings(l2)).is_some() {
                if let Some(s) = ctx.op(case, "set_servings.scale_to_servings", || r.scale_to_servings(2, &conv)) {
                    ctx.op(case, "set_servings.scale_to_servings.json", || serde_json::to_string(&s).map(|x| x.len()).unwrap_or(0));
                }
            }
        }
    }
    // servings targets incl. 0 and u32::MAX: with a declared base of 0 or u32::MAX the factor is 0, inf or NaN
    let targets: &[u32] = if recipe_has_servings { &[7, 0, 1, u32::MAX] } else { &[7] };
    for n in targets {
        if let Some(Some(r)) = ctx.op(case, "parse", || parser.parse(input).into_output()) {
            if let Some(s) = ctx.op(case, "scale_to_servings", || r.scale_to_servings(*n, &conv)) {
                consume_scaled(ctx, case, ps, "scale_to_servings", s);
            }
        }
    }
}

fn render(ctx: &mut Ctx, case: &Case, op: &str, report: &cooklang::error::SourceReport, input: &str) {
    if report.is_empty() {
        return;
    }
    ctx.count("reports_rendered");
    for color in [false, true] {
        ctx.op(case, op, || {
            let mut buf = Vec::new();
            let r = report.write("recipe.cook", input, color, &mut buf);
            (r.is_ok(), buf.len())
        });
    }
    ctx.op(case, op, || format!("{report}").len());
}

fn accessors(ctx: &mut Ctx, case: &Case, tag: &str, m: &cooklang::Metadata, conv: &cooklang::Converter) {
    if m.map.is_empty() {
        return;
    }
    ctx.count("metadata_nonempty");
    ctx.op(case, &format!("{tag}.accessors"), || {
        let mut n = 0usize;
        n += m.title().map(|s| s.len()).unwrap_or(0);
        n += m.description().map(|s| s.len()).unwrap_or(0);
        n += m.tags().map(|t| t.len()).unwrap_or(0);
        n += m.author().map(|a| a.name().map(|s| s.len()).unwrap_or(0)).unwrap_or(0);
        n += m.source().map(|a| a.url().map(|s| s.len()).unwrap_or(0)).unwrap_or(0);
        n += m.time(conv).map(|t| t.total() as usize).unwrap_or(0);
        n += m.servings().map(|s| s.len()).unwrap_or(0);
        n += m.locale().map(|l| l.0.len()).unwrap_or(0);
        n += m.map_filtered().count();
        n
    });
}

/// inputs aimed at each anchored mechanism
pub fn targeted() -> Vec<String> {
    let mut v: Vec<String> = Vec::new();
    // escapes before multi-byte chars and at end of input
    for tail in ["\\", "a \\", "a \\é b", "\\😀", "@a{\\é}", "@a\\é{}", "~t\\é{1%min}", ">> k\\é: v\\", "= s\\é =", "> t\\é", "\\\n", "\\\r\n", "a\\"] {
        v.push(tail.to_string());
    }
    // HhMm near 2^32, other time shapes
    for t in ["71582788h", "71582789h", "4294967295m", "4294967296m", "1h4294967295m", "71582788h16m", "99999999999h", "inf", "NaN", "-5", "1e400", "4294967296", "100000000 h", "1.5 d 3 h", "9e99 days"] {
        v.push(format!(">> time: {t}\n"));
        v.push(format!(">> prep time: {t}\nx"));
        v.push(format!("---\ntime: {t}\n---\nx"));
        v.push(format!("---\ntime: \"{t}\"\ncook time: {t}\n---\n"));
    }
    // servings
    for t in ["4294967296", "1|1", "-1", "99999999999999999999", "1|2|x", "2 people | 4", "[1, 2, 2]", "[1, a]", "{a: 1}", "0", "0|2", "4294967295", "[0]"] {
        v.push(format!(">> servings: {t}\n@a{{1}}"));
        v.push(format!("---\nservings: {t}\n---\n@a{{1}}"));
        // zero / huge / tiny amounts meet the servings base: 0 x inf, inf x 0 and overflow to inf inside scaling and fitting
        v.push(format!("---\nservings: {t}\nserves: {t}\nyield: {t}\n---\n@a{{100%g}} @b{{0%g}} @c{{0}} @d{{0-1%cup}} @e{{0.0000000001%tsp}} #p{{0}} ~{{0%min}} 0 kg"));
    }
    // servings that start with characters that are numeric but not ASCII digits (vulgar fractions, fullwidth, superscript,
    // Arabic-Indic, Roman numeral, circled) — alone, in `|` lists, in YAML lists, under every synonym
    for t in ["1½ cups", "2½ | 5", "４", "４ people", "²", "2² | 3", "٣", "٣ | ٤", "Ⅳ", "①|②", "½", "1¼|2¾ big", "12½%", "１２|２４"] {
        for k in ["servings", "serves", "yield"] {
            v.push(format!(">> {k}: {t}\n@a{{1}}"));
            v.push(format!("---\n{k}: {t}\n---\nMix @flour{{200%g}}.\n"));
            v.push(format!("---\n{k}: [\"{t}\", 3]\n---\n@a{{1}}"));
        }
    }
    // the same time key given twice or three times, refused and accepted values, overridden in between by the competing key
    for seq in [
        &["time: soon", "time: 10 min"][..], &["time: 1h", "prep time: 5 min", "time: 10 min"], &["prep time: 5 min", "time: 1h", "prep time: 7 min"], &["cook time: x", "cook time: 3 min", "time: 9 min", "cook time: 1 min"],
        &["time: 10 min", "time: soon", "time: 5 min"], &["duration: soon", "duration: 1h", "time required: 2h", "time: 3h"], &["prep_time: a", "prep time: 1 min", "prep_time: 2 min", "time: 1 min", "prep_time: 3 min"],
        &["servings: many", "servings: 2", "servings: 2|2", "servings: 4"], &["locale: xx_", "locale: en", "locale: 1"], &["time: 1h", "time: 1h", "time: 1h"],
    ] {
        let arrows: String = seq.iter().map(|l| format!(">> {l}\n")).collect();
        v.push(format!("{arrows}\nMix.\n"));
        v.push(format!("{arrows}"));
        v.push(format!("---\n{}\n---\nMix.\n", seq.join("\n")));
        v.push(format!("---\n{}\n---\n{arrows}Mix.\n", seq[0]));
    }
    // a byte order mark in front of every kind of diagnostic and of a text-mode component (offsets against the file as given)
    for t in [">> título: Paella\n\nAñadir @sal{1%g} y remover.\n", "@{}\n", "~{} later é.\n", ">> [mode]: text\nAñadir @sal{1%g} y #olla{}(é).\n", "---\ntime: soon\n---\nAñadir @&sal{}.\n", "= é = x\n@a{1/0}\n"] {
        v.push(format!("{}{t}", "\u{feff}"));
        v.push(format!("{}\n{t}", "\u{feff}"));
    }
    // locale values that are no codes: words in scripts with 2-, 3- and 4-byte letters, of every length around the cut points
    for t in ["español", "русский", "ελληνικά", "日本語", "fr_ça", "ñ", "añ", "aañ", "aaañ", "éé_éé", "e_é", "en_é", "en_Éa", "éaaa", "aéaa", "aaéa", "aaaé", "é_aa", "𝒆𝒏", "en_𝑼𝑺", "fil_PH", "en-GB", "ça_va-é"] {
        v.push(format!("---\nlocale: {t}\n---\nBatir los @huevos{{3}}.\n"));
        v.push(format!(">> locale: {t}\nx"));
    }
    // standard keys the textual key scan cannot locate (quoted, complex, tagged, in a flow mapping, in a second document),
    // with values that are refused or that override each other: diagnostics without a label, rendered too
    for y in ["\"time\": 1h\nprep time: 10 min", "'time': 1h\ncook time: 5 min\nprep time: 1 min", "? time\n: 1h\nprep time: 10 min", "!!str time: 1h\nprep time: 2 min", "{time: 1h, prep time: 10 min, cook time: 5 min}",
        "title: Pancakes\n\"servings\": a lot", "'time': soon\n'locale': xx_\n\"tags\": 3", "{servings: many, time: soon}", "? servings\n: x", "title: a\n--- \nservings: 2", "a: &a [*a, *a]\nservings: x", "\"prep time\": 5 min\n\"time\": 1h\n\"cook time\": 1 min"] {
        v.push(format!("---\n{y}\n---\n\nMix the @flour{{200%g}} with the @water{{100%ml}}.\n"));
    }
    // empty servings list; more than 7 labels in one diagnostic (one label per `>>` entry)
    v.push("---\nservings: []\n---\nMix @flour{200%g} and @water{1%l}.\n".to_string());
    v.push(">> servings: \n@a{1}".to_string());
    v.push((0..12).map(|i| format!(">> key{i}: value {i}\n")).collect::<String>() + "\nstep @a{1}\n");
    v.push((0..9).map(|i| format!("@a{i}{{1%kg}} @&a{i}{{1%l}} ")).collect::<String>());
    // single tokens longer than 64 KiB: a comment, a word, a run of blanks, a number, a line comment
    let long = "x".repeat(70_000);
    v.push(format!("Mix [- {long} -] the @salt{{1%g}} well é.\n\nThen @bake{{}} it.\n"));
    v.push(format!("-- {long}\nThen @bake{{1%kg}} it é.\n"));
    v.push(format!("{long} then @bake{{}} it é.\n"));
    v.push(format!("a{}b @c{{1}} é\n", " ".repeat(70_000)));
    v.push(format!("@a{{1%{long}}} and @b{{{long}}} é"));
    let d400 = "9".repeat(400);
    v.push(format!("@a{{{d400}%g}} @b{{{d400}%cup}} @c{{{d400}-1%oz}} @d{{0.{}1%kg}} {d400} kg\n>> servings: 0", "0".repeat(400)));
    v.push(format!(">> servings: 4294967295\n@a{{{d400}%lb}} @b{{0%lb}} @&a{{1%g}}"));
    // huge numbers
    let digits = "9".repeat(5000);
    v.push(format!("@a{{{digits}}}"));
    v.push(format!("@a{{{digits}.{digits}%kg}}"));
    v.push(format!("@a{{1/{digits}}}"));
    v.push(format!("@a{{{digits} 1/2}}"));
    v.push(format!("@&({digits})a{{}}"));
    v.push(format!("heat to {digits} C and {digits}.{digits} kg"));
    v.push(format!(">> servings: {digits}"));
    // deep nests / long lines
    v.push("@".repeat(5000) + "a{}");
    v.push("@&".repeat(3000) + "a{}");
    v.push("@&(".repeat(2000));
    v.push("(".repeat(5000) + &")".repeat(5000));
    v.push("{".repeat(5000) + &"}".repeat(5000));
    v.push("@a{".repeat(3000));
    v.push("[-".repeat(4000));
    v.push("-- ".repeat(4000));
    v.push("a ".repeat(50_000));
    v.push("1 ".repeat(20_000));
    v.push("1 kg ".repeat(10_000));
    v.push("@a{1%kg} ".repeat(5_000));
    v.push("@&a{} ".repeat(3_000));
    v.push("@a{1}\n\n".repeat(3000));
    v.push("= s\n".repeat(5000));
    v.push(">> k: v\n".repeat(5000));
    v.push("\n".repeat(50_000));
    v.push("\r".repeat(20_000));
    v.push("\r\n".repeat(20_000));
    v.push("> t\n".repeat(5000));
    // very many lines of one kind that yield no event for the metadata-only reader, then one entry: its loop over blocks
    // must not grow the stack with the number of skipped lines
    for line in [">> remember the salt\n", ">>\n", ">> \n", ">>x\n", "-- c\n", "[- c -]\n", "x\n\n", "> n\n\n", "= s\n", "\\\n", "@\n\n", ">> :\n", ">>: v\n", "---\n"] {
        v.push(line.repeat(150_000) + ">> servings: 4\n");
    }
    v.push(">> remember the salt\nStir well.\n\n".repeat(60_000) + ">> servings: 4\n");
    // a number written in pieces inside the braces
    for q in ["1 .5", "1. 5", ". 5", "1 . 5", "1[- c -].5", "1.[- c -]5", "1 /2", "1/ 2", "1 1 /2", "1\t.5", "0 .0", "1 .", ". ", "1 .5.2", "01 .5", "1 .05", "1 .5%kg", "1 .5 %kg", "1. 5-2 .5", "1 .5|2. 5"] {
        v.push(format!("Mix @flour{{{q}}} in #bowl{{{q}}} for ~{{{q}%min}} then @salt{{{q}%g}} and {q} kg."));
        v.push(format!("@&flour{{{q}}} @flour{{={q}%g}} ~t{{{q}}}"));
    }
    // hostile front matter
    for y in [
        "a: &x [1, 2]\nb: *x\nc: *x",
        "a: &a [*a]",
        "<<: {a: 1}\nb: 2",
        "? [a, b]\n: c",
        "1: a\ntrue: b\n~: c",
        "a: !tag b\nc: !!binary aGk=",
        "a: |\n  text\n  more\nb: >\n  folded",
        "- a\n- b",
        ": [",
        "a: 'unterminated",
        "a: \"\\x\"",
        "a: {b: {c: {d: {e: {f: 1}}}}}",
        "tags: [a, [b, c], {d: e}]\nservings: [1, [2]]\ntime: {prep: 1h, cook: [1]}",
        "author: {name: 1, url: 2}\nsource: {x: y}\nlocale: en_USA\ntitle: [a]",
        "time: 1.5\nservings: 1.5\ntags: 3\nlocale: 1",
        "\u{feff}a: b",
        "a: b\r\nc: d\r",
        "%YAML 1.2\n---\na: b",
        "a: b\n...\nc: d",
    ] {
        v.push(format!("---\n{y}\n---\nstep @a{{1}}"));
        v.push(format!("---\r\n{y}\r\n---\r\nstep"));
    }
    let deep = "[".repeat(300) + &"]".repeat(300);
    v.push(format!("---\na: {deep}\n---\n"));
    let anchors: String = (0..40).map(|i| format!("a{i}: &a{i} [{}]\n", if i == 0 { "x".to_string() } else { format!("*a{0}, *a{0}", i - 1) })).collect();
    v.push(format!("---\n{anchors}---\n"));
    v.push("---\n---\n".to_string());
    v.push("---\n---".to_string());
    v.push("--- \n--- \n--- \n".to_string());
    v.push("x\n---\na: b\n---\ny".to_string());
    // unclosed comments, CR soup
    v.push("a [- never closed".to_string());
    v.push("@a{1 [- c }".to_string());
    v.push("a\rb\r\rc\r\n\rd".to_string());
    // notes / labels next to multi-byte
    for s in ["~é(x)", "~a😀(x)", "#é(x)", "@é(x)", "~é{}(x)", "~😀{1%min}(x)", "@a{}(é", "@&a{}(é)", "@é{} @&é{}(n)"] {
        v.push(s.to_string());
    }
    // every construct of the diagnostics catalogue (C07), alone and inside a small recipe, so that each diagnostic path
    // (its message building, labels, hints, debug assertions on severity) is executed by every guarded operation
    for e in crate::mon::c07::CATALOGUE {
        let (t, _, _) = crate::mon::c07::unmark(e.template);
        v.push(t.clone());
        if !e.block {
            v.push(format!("Mix @flour{{1%kg}} then {t} and #pan{{}}.\n\nNext ~{{5%min}} {t}\n"));
        }
    }
    // recipe paths whose `..` segments cancel everything; mixed numbers whose whole part or improper fraction reach u32::MAX
    for name in ["./..", "../..", "./a/..", "./sauces/..", "./a/../..", "./a/b/../../..", "./.", ".//", "./", "../", "./sauces//tomato", ".\\x\\..", "./..//.."] {
        v.push(format!("Serve with @{name}{{}} on the side and @&{name}{{1}} again."));
        v.push(format!("@@{name}{{2%kg}}"));
    }
    for q in ["4294967295 3/2", "4294967290 12/2", "4294967295 1/1", "1 4294967295/1", "4294967295/4294967295", "0 0/1", "4294967294 4294967295/4294967294", "1 1/4294967295", "4294967296 1/2", "4294967295-4294967295 3/2"] {
        v.push(format!("Mix @flour{{{q}%g}} with #p{{{q}}} for ~{{{q}%min}}."));
    }
    // a standard key indented with multi-byte white space inside the front matter, plus a refused value for the same key
    for ind in ["\u{a0}", "\u{3000}", "\u{2003} ", "\t"] {
        v.push(format!("---\n{ind}time: 10 min\ntime: soon\n---\nBoil the @water{{1%l}}.\n"));
        v.push(format!("---\nnote: é\n{ind}servings: a|b\nservings: x\n{ind}locale: zz_\n---\nx\n"));
    }
    // modes
    for m in ["all", "components", "steps", "text", "bogus", ""] {
        v.push(format!(">> [mode]: {m}\n@a{{1}} text #b ~c{{1%min}}\n\n> para\n\n>> [mode]: steps\n@a @zz"));
        v.push(format!(">> [duplicate]: {m}\n@a{{1}} @a{{2}} @+a @&a(n)"));
    }
    v
}

/// fragments aimed at the consumers of a parsed recipe (grouping, listing, scaling, conversion): the same name
/// with text and numeric amounts in either order, with units of several physical quantities, unknown units,
/// ranges, fractions, locks; servings; mode switches that move definitions out of steps
pub const CONSUMER_FRAGMENTS: &[&str] = &[
    "@a{1%kg}", "@&a{some}", "@&a{2%l}", "@&a{1/2%cup}", "@&a{2-3%g}", "@a{big}", "@&a{3}", "@&a", "@a{=2%tsp}", "@&a{1%pinch}", "@&a{0%g}",
    "#p{big}", "#&p{2}", "#&p{1}", "#p{2}", "#&p{few}", "#&p", "#&p{1-2}", "#&p{1/2}", "@-a{1}", "@?a{1%g}", "@a|x{1%°C}", "@&a{1%°F}",
    "~t{1%min}", "~{1 1/2%h}", "5 min ", "text ", "\n\n", "= s\n", ">> servings: 2|4\n", ">> [mode]: components\n", ">> [mode]: all\n",
    ">> [duplicate]: ref\n", "@a{1%kg}(n)", "@b{1e3%g}", "@&b{999999999999%lb}",
];

fn consumer_family(ctx: &mut Ctx, ps: &mut Parsers) {
    use crate::gen::alphabet;
    use crate::gen::recipe::{self as g, feat, GenOpts};
    let frags: Vec<&str> = CONSUMER_FRAGMENTS.to_vec();
    let maxlen = if ctx.is_thorough() { 3 } else { 2 };
    let total = alphabet::count_upto(frags.len(), maxlen);
    ctx.notes.insert("consumer_fragment_sequences".into(), total.into());
    let all = Extensions::all().bits();
    let mut s = String::new();
    let mut idx = ctx.shard as u64;
    while idx < total {
        alphabet::nth(&frags, idx, &mut s);
        // fragments are joined by a blank so that they stay separate components
        let spaced = s.replace('}', "} ").replace(")@", ") @");
        for (e, c) in [(all, "bundled"), (all, "empty")] {
            check_case(ctx, ps, &Case::new("consumer_fragments", spaced.as_str(), e, c));
        }
        ctx.count("inputs_consumer_fragments");
        idx += ctx.nshards as u64;
    }
    let n = ctx.budget(6_000, 600_000);
    for k in 0..n {
        let text = if k % 2 == 0 {
            let len = ctx.rng.range(3, 9);
            let mut t = String::new();
            for _ in 0..len {
                t.push_str(frags[ctx.rng.below(frags.len())]);
                t.push(' ');
            }
            t
        } else {
            let seed = ctx.rng.next();
            let mut r = crate::core::Rng::new(seed);
            let spec = g::gen_spec(&mut r, &GenOpts::extended_mixed());
            g::spell(&spec, seed, feat::ALL, 1 + (k % 3) as u32).text
        };
        let c = if ctx.rng.chance(3, 4) { "bundled" } else { "empty" };
        check_case(ctx, ps, &Case::new("consumer_random", text.as_str(), all, c));
        ctx.count("inputs_consumer_random");
    }
}

/// Under Miri (undefined-behaviour interpreter): the slice of the workload that reaches `unsafe` code of the
/// dependencies — YAML front matter (unsafe-libyaml), small vectors and hash maps of the parser and analysis —
/// with every guarded operation, on small inputs only (one operation costs 0.05-0.5 s there).
fn miri_slice(ctx: &mut Ctx, ps: &mut Parsers) {
    let scale: usize = std::env::var("VERIF_SCALE").ok().and_then(|s| s.parse().ok()).unwrap_or(1);
    let mut inputs: Vec<String> = targeted().into_iter().filter(|s| s.len() < 160 && (s.starts_with("---") || s.contains('\\') || s.contains("[mode]") || s.contains('('))).collect();
    inputs.extend(CONSUMER_FRAGMENTS.chunks(6).map(|c| c.join(" ")));
    let all = Extensions::all().bits();
    let mut k = 0u64;
    let mut done = 0usize;
    for input in &inputs {
        k += 1;
        if !ctx.mine(k) {
            continue;
        }
        if done >= 6 * scale {
            break;
        }
        done += 1;
        check_case(ctx, ps, &Case::new("miri", input.as_str(), all, "bundled"));
        ctx.count("inputs_miri");
    }
}

/// Arithmetic overflow that does not trap (a truncating or saturating cast, a wrapping operation) leaves no panic to
/// catch; it is visible as a value that cannot be right. Probes at the 32-bit boundary with the obvious oracle: a number
/// that does not fit `u32` is not reported as some other `u32`, an amount at or above 2^32 keeps its size through
/// scaling, fitting, converting and grouping.
fn overflow_probes(ctx: &mut Ctx, ps: &mut Parsers) {
    let all = Extensions::all().bits();
    for n in [4294967296u64, 4294967298, 4294967356, 8589934592, 9007199254740993, 18446744073709551615] {
        for (key, which) in [("servings", 0), ("serves", 0), ("yield", 0), ("time", 1), ("prep time", 1), ("cook time", 1), ("duration", 1)] {
            for input in [format!("---\n{key}: {n}\n---\nAdd @flour{{100%g}}.\n"), format!("---\n{key}: [{n}, 2]\n---\nAdd @flour{{100%g}}.\n"), format!(">> {key}: {n}\nAdd @flour{{100%g}}.\n"), format!("---\n{key}: {n}m\n---\n"), format!("---\n{key}: {n} min\n---\n")] {
                for conv in ["bundled", "empty"] {
                    let case = Case::new("overflow_probe", input.as_str(), all, conv);
                    ctx.begin(&case);
                    let parser = ps.parser(all, conv).clone();
                    let res = crate::core::guarded(|| {
                        let r = parser.parse(&input);
                        r.output().map(|o| (o.metadata.servings(), o.servings().map(|s| s.to_vec()), o.metadata.time(parser.converter()).map(|t| t.total())))
                    });
                    match res {
                        Err(p) => ctx.panic_violation(&case, "parse+accessors", p),
                        Ok(None) => {}
                        Ok(Some((ms, rs, t))) => {
                            let small_servings = which == 0 && (ms.is_some() || rs.is_some());
                            let small_time = which == 1 && t.is_some() && key != "duration";
                            if small_servings || small_time {
                                ctx.violation(&case, "overflow", "number_beyond_u32_reported_as_another_number", format!("{key}: {n} does not fit 32 bits, yet servings {ms:?} / recipe servings {rs:?} / minutes {t:?}"));
                            } else {
                                ctx.count("overflow_probes_metadata_ok");
                                ctx.nontrivial(&case);
                            }
                        }
                    }
                }
            }
        }
    }
    // amounts at and beyond 2^32, written or reached by scaling, in units of every system
    let conv = cooklang::Converter::bundled();
    for (amount, unit, factor) in [(5000000000.3f64, "lb", 1.0f64), (2500000000.25, "lb", 2.0), (4294967295.5, "cup", 1.0), (4294967296.5, "oz", 1.0), (1.5, "lb", 3000000001.0), (4294967295.75, "in", 1.0), (6000000000.5, "tsp", 1.0), (4294967296.5, "g", 1.0), (4294967297.25, "kg", 3.0), (9e15, "ft", 1.0)] {
        let input = format!("Add @flour{{{amount}%{unit}}} and @&flour{{1%{unit}}}.");
        let case = Case::new("overflow_probe", input.as_str(), all, "bundled").with(serde_json::json!({"factor": factor}));
        ctx.begin(&case);
        let parser = ps.parser(all, "bundled").clone();
        let Some(def) = crate::units::def_of(&conv, unit) else { continue };
        let want = def.to_base(amount * factor);
        let res = crate::core::guarded(|| {
            let Some(rec) = parser.parse(&input).into_output() else { return Vec::new() };
            let scaled = rec.scale(factor, &conv);
            let mut seen: Vec<(String, Option<cooklang::ScaledQuantity>)> = vec![("scale".into(), scaled.ingredients[0].quantity.clone())];
            let mut fitted = scaled.ingredients[0].quantity.clone();
            if let Some(q) = fitted.as_mut() {
                let _ = q.fit(&conv);
            }
            seen.push(("scale+fit".into(), fitted));
            for sys in [cooklang::convert::System::Metric, cooklang::convert::System::Imperial] {
                let mut c = scaled.ingredients[0].quantity.clone();
                if let Some(q) = c.as_mut() {
                    let _ = q.convert(sys, &conv);
                }
                seen.push((format!("scale+convert({sys:?})"), c));
            }
            seen
        });
        match res {
            Err(p) => ctx.panic_violation(&case, "scale/fit/convert", p),
            Ok(seen) => {
                let mut ok = !seen.is_empty();
                for (what, q) in seen {
                    let got = q.as_ref().and_then(|q| {
                        let v = match q.value() {
                            cooklang::Value::Number(n) => n.value(),
                            _ => return None,
                        };
                        crate::units::def_of(&conv, q.unit()?).map(|d| d.to_base(v))
                    });
                    if !matches!(got, Some(g) if crate::units::close(g, want, 1e-6, 0.0)) {
                        ok = false;
                        ctx.violation(&case, "overflow", "amount_beyond_u32_changes_size", format!("{amount} {unit} x {factor} after {what}: {:?} (base amount {got:?}, expected {want})", q.map(|q| q.to_string())));
                        break;
                    }
                }
                if ok {
                    ctx.count("overflow_probes_amounts_ok");
                    ctx.nontrivial(&case);
                }
            }
        }
    }
}

pub fn run(ctx: &mut Ctx) {
    let mut ps = Parsers::new();
    if std::env::var("VERIF_MIRI").is_ok() {
        miri_slice(ctx, &mut ps);
        return;
    }
    if ctx.shard == 0 {
        overflow_probes(ctx, &mut ps);
    }
    consumer_family(ctx, &mut ps);
    // targeted family under four configs
    let t = targeted();
    let cfgs: [(u32, &str); 4] = [
        (Extensions::empty().bits(), "empty"),
        (Extensions::all().bits(), "bundled"),
        (Extensions::all().bits(), "empty"),
        (Extensions::COMPAT.bits(), "bundled"),
    ];
    let mut k = 0u64;
    for input in &t {
        for (e, c) in cfgs {
            if ctx.mine(k) {
                let case = Case::new("targeted", input.as_str(), e, c);
                check_case(ctx, &mut ps, &case);
                ctx.count("inputs_targeted");
            }
            k += 1;
        }
    }
    let p = G2 {
        exh_quick: 2,
        exh_thorough: 3,
        random_quick: 24_000,
        random_thorough: 1_500_000,
        extra_subsets: 1,
        both_converters: false,
        ..Default::default()
    };
    workload::g2(ctx, &p, "g2", |ctx, case| check_case(ctx, &mut ps, case));
    ctx.exhaustive = false;
}

pub fn replay(ctx: &mut Ctx, case: &Case) {
    let mut ps = Parsers::new();
    check_case(ctx, &mut ps, case);
}
