//! C17 — line endings, comments and blank space do not change the recipe.
//! Metamorphic monitor: parse(T(input)) vs parse(input) for four transformation families.

use crate::core::{Case, Ctx, Parsers, Rng};
use crate::gen::alphabet::{self, ALPHABET, SEEDS, SMALL};
use crate::gen::recipe::{self as g, feat, GenOpts};
use cooklang::parser::verif_tokens;
use cooklang::Extensions;
use serde_json::{json, Value as J};

fn collapse_ws(s: &str) -> String {
    let mut out = String::with_capacity(s.len());
    let mut prev = false;
    for c in s.chars() {
        if c.is_whitespace() {
            if !prev {
                out.push(' ');
            }
            prev = true;
        } else {
            prev = false;
            out.push(c);
        }
    }
    out
}

/// image of a recipe with white space inside step text / paragraphs normalised
pub fn normalised(img: &J) -> J {
    let mut v = img.clone();
    if let Some(sections) = v["sections"].as_array_mut() {
        for s in sections {
            if let Some(content) = s["content"].as_array_mut() {
                for c in content {
                    if c["type"] == "text" {
                        let t = collapse_ws(c["value"].as_str().unwrap_or("")).trim().to_string();
                        c["value"] = J::String(t);
                    } else if let Some(items) = c["value"]["items"].as_array() {
                        let mut out: Vec<J> = Vec::new();
                        for it in items {
                            if it["type"] == "text" {
                                let t = it["value"].as_str().unwrap_or("");
                                if let Some(last) = out.last_mut() {
                                    if last["type"] == "text" {
                                        let joined = format!("{}{}", last["value"].as_str().unwrap(), t);
                                        last["value"] = J::String(joined);
                                        continue;
                                    }
                                }
                                out.push(json!({"type": "text", "value": t}));
                            } else {
                                out.push(it.clone());
                            }
                        }
                        let n = out.len();
                        for (k, it) in out.iter_mut().enumerate() {
                            if it["type"] == "text" {
                                let mut t = collapse_ws(it["value"].as_str().unwrap());
                                if k == 0 {
                                    t = t.trim_start().to_string();
                                }
                                if k + 1 == n {
                                    t = t.trim_end().to_string();
                                }
                                it["value"] = J::String(t);
                            }
                        }
                        out.retain(|it| !(it["type"] == "text" && it["value"].as_str().unwrap().is_empty()));
                        c["value"]["items"] = J::Array(out);
                    }
                }
            }
        }
    }
    v
}

pub struct Parsed {
    pub valid: bool,
    pub has_output: bool,
    pub img: Option<J>,
}

pub fn parse(ps: &mut Parsers, input: &str, ext: u32, conv: &str) -> Option<Parsed> {
    let parser = ps.parser(ext, conv).clone();
    let r = crate::core::guarded(|| parser.parse(input)).ok()?;
    Some(Parsed { valid: r.is_valid(), has_output: r.has_output(), img: r.output().map(|o| match serde_json::to_value(o) {
        Ok(v) => normalised(&v),
        // front matter with a non-string key cannot be serialized (known finding F14, C15's business): such a pair is
        // compared on validity and output presence only
        Err(e) => J::String(format!("<unserializable: {e}>")),
    }) })
}

/// compare; returns cause class + message
pub fn differ(a: &Parsed, b: &Parsed) -> Option<(String, String)> {
    if a.valid != b.valid {
        return Some(("validity_changed".into(), format!("valid {} -> {}", a.valid, b.valid)));
    }
    if a.has_output != b.has_output {
        return Some(("output_presence_changed".into(), format!("{} -> {}", a.has_output, b.has_output)));
    }
    if let (Some(x), Some(y)) = (&a.img, &b.img) {
        let mut p = String::new();
        if let Some((path, l, r)) = g::json_diff(x, y, &mut p) {
            return Some((format!("recipe_changed|{}", g::path_class(&path)), format!("at {path}: {l} -> {r}")));
        }
    }
    None
}

fn judge(ctx: &mut Ctx, ps: &mut Parsers, base: &Parsed, orig: &str, transformed: String, ext: u32, conv: &str, t: &str, detail: &str) {
    let case = Case::new(t, transformed.as_str(), ext, conv).with(json!({"original": orig, "transformation": t, "detail": detail}));
    ctx.begin(&case);
    let Some(p) = parse(ps, &transformed, ext, conv) else {
        // the original parsed (base exists), the transformed text makes the parser panic: the transformation changed the outcome
        ctx.violation(&case, t, &format!("panic_after_transformation|{detail}"), "the parser panics on the transformed text but not on the original".into());
        return;
    };
    match differ(base, &p) {
        None => {
            ctx.count(&format!("{t}_ok"));
            if base.has_output {
                ctx.nontrivial(&case);
            }
            if ctx.evals % 20_000 == 1 {
                ctx.sample(json!({"transformation": t, "detail": detail, "original": orig, "transformed": transformed}));
            }
        }
        Some((c, m)) => ctx.violation(&case, t, &format!("{c}|{detail}"), m),
    }
}

/// where the recipe body begins: after the closing fence of a front matter that is the first thing in the file that is
/// not a white-space-only line (the fence lines themselves are not lines of the recipe: nothing is appended to them)
fn body_start(input: &str) -> usize {
    let mut off = 0;
    let mut lines = input.split_inclusive('\n');
    let mut first = None;
    for l in lines.by_ref() {
        off += l.len();
        if !l.trim().is_empty() {
            first = Some(l);
            break;
        }
    }
    if first.map(|l| l.trim_end()) != Some("---") {
        return 0;
    }
    for l in lines {
        off += l.len();
        if l.trim_end() == "---" {
            return off;
        }
    }
    0
}

/// T3 inside the value of an old-style `>>` entry: the stored text keeps its inner blanks (so the map is not compared), but
/// what the standard accessors read from it (minutes, servings, tags, locale, author; texts up to inner white space) and
/// the warnings stay the same.
pub fn meta_t3(ctx: &mut Ctx, ps: &mut Parsers) {
    let ext = cooklang::Extensions::all().bits();
    for value in ["time: 1 hour 30 min", "prep time: 1 h 5 min 30 s", "cook time: 2 hours 45 minutes", "duration: 90 min", "servings: 2 | 4 | 8", "serves: 4 people", "tags: quick, vegan, one pot", "locale: en_GB", "author: Rachel <https://rachel.url>", "time: 1h30m"] {
        let base_text = format!(">> {value}\n\nMix @flour{{200%g}}.\n");
        let gaps: Vec<usize> = value.char_indices().filter(|(i, c)| *c == ' ' && *i > value.find(':').unwrap_or(0)).map(|(i, _)| i + 3).collect();
        for conv in ["bundled", "empty"] {
            let parser = ps.parser(ext, conv).clone();
            let read = |text: &str| {
                crate::core::guarded(|| {
                    let r = parser.parse(text);
                    let warnings = r.report().warnings().filter(|w| !w.message.contains("deprecated")).count();
                    r.output().map(|o| (o.metadata.time(parser.converter()).map(|t| t.total()), o.metadata.servings(), o.servings().map(|s| s.to_vec()), o.metadata.tags().map(|t| t.iter().map(|x| x.split_whitespace().collect::<Vec<_>>().join(" ")).collect::<Vec<_>>()), o.metadata.locale().map(|l| format!("{l:?}")), o.metadata.author().map(|a| format!("{:?} {:?}", a.name().map(|n| n.split_whitespace().collect::<Vec<_>>().join(" ")), a.url())), warnings, r.is_valid()))
                })
            };
            let Ok(base) = read(&base_text) else { continue };
            for g in &gaps {
                for comment in ["[- c -]", " [- plus cooling -]", "[- é -] "] {
                    let t = format!("{}{comment}{}", &base_text[..*g], &base_text[*g..]);
                    let case = Case::new("T3_block_comment", t.as_str(), ext, conv).with(json!({"original": base_text, "transformation": "T3_block_comment", "detail": "in_metadata_value"}));
                    ctx.begin(&case);
                    match read(&t) {
                        Err(p) => ctx.violation(&case, "T3_block_comment", "panic_after_transformation|in_metadata_value", format!("{} at {}", p.message, p.location)),
                        Ok(got) => {
                            if got != base {
                                ctx.violation(&case, "T3_block_comment", "accessors_changed|in_metadata_value", format!("what the accessors read changed: {base:?} -> {got:?}"));
                            } else {
                                ctx.count("T3_in_metadata_value_ok");
                                ctx.nontrivial(&case);
                            }
                        }
                    }
                }
            }
        }
    }
}

/// T1 on any input without backslash or CR
pub fn t1(ctx: &mut Ctx, ps: &mut Parsers, input: &str, ext: u32, conv: &str) {
    if input.contains('\\') || input.contains('\r') || !input.contains('\n') {
        return;
    }
    let Some(base) = parse(ps, input, ext, conv) else { return };
    judge(ctx, ps, &base, input, input.replace('\n', "\r\n"), ext, conv, "T1_crlf", "all");
}

fn line_starts(s: &str) -> Vec<usize> {
    let mut v = vec![0];
    for (i, b) in s.bytes().enumerate() {
        if b == b'\n' && i + 1 < s.len() {
            v.push(i + 1);
        }
    }
    v
}

/// T2, T3, T4 on a well-formed recipe: every eligible insertion point in turn
pub fn t234(ctx: &mut Ctx, ps: &mut Parsers, input: &str, ext: u32, conv: &str, rng: &mut Rng) {
    let Some(base) = parse(ps, input, ext, conv) else { return };
    if !base.valid {
        ctx.count("not_well_formed_skipped");
        return;
    }
    let body = body_start(input);
    let starts: Vec<usize> = line_starts(input).into_iter().filter(|s| *s >= body).collect();
    let line_end = |s: usize| input[s..].find('\n').map(|p| s + p).unwrap_or(input.len());
    let is_blank = |s: usize| input[s..line_end(s)].trim().is_empty();
    // T2: trailing comment / spaces on every non-blank body line
    for s in &starts {
        if is_blank(*s) {
            continue;
        }
        let e = line_end(*s);
        let mut end = e;
        if end > *s && input.as_bytes()[end - 1] == b'\r' {
            end -= 1;
        }
        // a line that already ends inside a comment or with an escape is left alone
        let line = &input[*s..end];
        if line.ends_with('\\') {
            continue;
        }
        for (add, detail) in [(" -- c", "line_comment"), ("   ", "spaces"), (" --", "empty_line_comment"), (" ", "one_space")] {
            if rng.chance(1, 2) && detail != "line_comment" {
                continue;
            }
            let t = format!("{}{}{}", &input[..end], add, &input[end..]);
            judge(ctx, ps, &base, input, t, ext, conv, "T2_trailing", detail);
        }
    }
    // T2 inside the front matter: trailing spaces (not comments — `--` is not a comment in YAML) on the fence lines and
    // on the YAML lines (plain / quoted scalars, flow and block collections: trailing blanks are not content there)
    if body > 0 {
        for s in line_starts(input).into_iter().filter(|s| *s < body) {
            let e = line_end(s);
            let mut end = e;
            if end > s && input.as_bytes()[end - 1] == b'\r' {
                end -= 1;
            }
            if input[s..end].trim().is_empty() {
                continue;
            }
            let fence = input[s..end].trim_end() == "---";
            for (add, detail) in [("  ", "spaces_in_front_matter"), ("\t", "tab_after_fence")] {
                if detail == "tab_after_fence" && !fence {
                    continue;
                }
                let t = format!("{}{}{}", &input[..end], add, &input[end..]);
                judge(ctx, ps, &base, input, t, ext, conv, "T2_trailing", if fence { "spaces_after_fence" } else { detail });
                ctx.count("T2_front_matter_lines");
            }
        }
    }
    // T3: block comment at an existing gap between two words (not on `>>` lines)
    let (_, toks) = verif_tokens(input);
    for w in toks.windows(3) {
        let (a, ws, b) = (&w[0], &w[1], &w[2]);
        if ws.0 != "Whitespace" {
            continue;
        }
        let wordish = |k: &str| matches!(k, "Word" | "Int" | "ZeroInt");
        if !wordish(&a.0) || !wordish(&b.0) {
            continue;
        }
        let ls = input[..ws.1].rfind('\n').map(|p| p + 1).unwrap_or(0);
        if input[ls..].trim_start().starts_with(">>") {
            continue;
        }
        // where are we: inside braces / parentheses / plain
        let before = &input[ls..ws.1];
        let ctxname = if before.rfind('{').map(|o| before[o..].find('}').is_none()).unwrap_or(false) {
            "in_braces"
        } else if before.rfind('(').map(|o| before[o..].find(')').is_none()).unwrap_or(false) {
            "in_parens"
        } else {
            "plain"
        };
        let variants = [
            (format!("{}[- c -] {}", &input[..ws.2], &input[ws.2..]), "padded"),
            (format!("{}[- c -]{}", &input[..ws.1], &input[ws.1..]), "left_edge"),
            (format!("{}[- c -]{}", &input[..ws.2], &input[ws.2..]), "right_edge"),
        ];
        // the padded variant adds a U+0020 of its own: neutral only where the gap itself is made of U+0020 (runs of
        // which collapse); next to a tab / NBSP / ideographic space only the two variants that add no blank are used
        let plain_gap = input[ws.1..ws.2].chars().all(|c| c == ' ');
        for (t, v) in variants {
            if v == "padded" && !plain_gap {
                continue;
            }
            judge(ctx, ps, &base, input, t, ext, conv, "T3_block_comment", &format!("{v}|{ctxname}"));
        }
        // comment bodies that look like syntax: another opener (the first `-]` closes), components, a line comment
        // marker, nothing at all, multi-byte text
        if rng.chance(1, 4) {
            let body_text = *rng.pick(&["[- a [- b -]", "[- see [-2 -]", "[-[-[- -]", "[- @x{1%kg} #y{} ~z{2%min} -]", "[- -- not a line comment -]", "[--]", "[- - ] -]", "[- é 😀 ｛ -]", "[- >> k: v -]", "[- = s = -]"]);
            let t = format!("{}{body_text}{}", &input[..ws.2], &input[ws.2..]);
            judge(ctx, ps, &base, input, t, ext, conv, "T3_block_comment", &format!("right_edge_syntax_like_body|{ctxname}"));
            ctx.count("T3_syntax_like_comment_body");
        }
    }
    // T3 where the braces of a component hold only blanks (`{ }`) or nothing (`{}`): a comment there is still "no quantity"
    for w in toks.windows(2) {
        let (a, b) = (&w[0], &w[1]);
        if a.0 == "OpenBrace" && b.0 == "CloseBrace" {
            let t = format!("{}[- c -]{}", &input[..b.1], &input[b.1..]);
            judge(ctx, ps, &base, input, t, ext, conv, "T3_block_comment", "in_empty_braces");
            ctx.count("T3_in_blank_braces");
        }
    }
    for w in toks.windows(3) {
        let (a, ws, b) = (&w[0], &w[1], &w[2]);
        if a.0 == "OpenBrace" && ws.0 == "Whitespace" && b.0 == "CloseBrace" {
            for t in [format!("{}[- c -]{}", &input[..ws.1], &input[ws.1..]), format!("{}[- c -]{}", &input[..ws.2], &input[ws.2..])] {
                judge(ctx, ps, &base, input, t, ext, conv, "T3_block_comment", "in_blank_braces");
                ctx.count("T3_in_blank_braces");
            }
        }
    }
    // one very long comment per recipe (longer than 64 KiB): between two words, at the end of a line, on a line of its own
    {
        let long = "x".repeat(70_000);
        let gaps: Vec<(usize, usize)> = toks.windows(3).filter(|w| w[1].0 == "Whitespace" && matches!(w[0].0.as_str(), "Word" | "Int") && matches!(w[2].0.as_str(), "Word" | "Int") && input[w[1].1..w[1].2].chars().all(|c| c == ' ')).map(|w| (w[1].1, w[1].2)).collect();
        if !gaps.is_empty() && rng.chance(1, 6) {
            let (_, e) = gaps[rng.below(gaps.len())];
            let ls = input[..e].rfind('\n').map(|p| p + 1).unwrap_or(0);
            if !input[ls..].trim_start().starts_with(">>") && e >= body {
                let t = format!("{}[- {long} -] {}", &input[..e], &input[e..]);
                judge(ctx, ps, &base, input, t, ext, conv, "T3_block_comment", "padded_64k|plain");
                ctx.count("T3_very_long_comment");
            }
        }
        if rng.chance(1, 6) {
            if let Some(s0) = starts.iter().find(|s| !is_blank(**s) && !input[**s..line_end(**s)].ends_with('\\')) {
                let mut end = line_end(*s0);
                if end > *s0 && input.as_bytes()[end - 1] == b'\r' {
                    end -= 1;
                }
                let t = format!("{} -- {long}{}", &input[..end], &input[end..]);
                judge(ctx, ps, &base, input, t, ext, conv, "T2_trailing", "line_comment_64k");
                ctx.count("T2_very_long_comment");
            }
        }
    }
    // T4: extra blank / comment-only lines next to existing blank lines or single-line blocks
    for s in &starts {
        let single = |st: usize| {
            let l = &input[st..line_end(st)];
            l.starts_with('=') || l.starts_with(">>")
        };
        let prev_start = starts.iter().rev().find(|p| **p < *s).copied();
        let eligible = is_blank(*s) || single(*s) || prev_start.map(|p| is_blank(p) || single(p)).unwrap_or(true);
        if !eligible {
            continue;
        }
        for (add, detail) in [("\n", "blank"), ("-- c\n", "line_comment_line"), ("[- c -]\n", "block_comment_line"), ("  \t\n", "whitespace_line")] {
            if rng.chance(1, 2) && detail != "blank" {
                continue;
            }
            let t = format!("{}{}{}", &input[..*s], add, &input[*s..]);
            judge(ctx, ps, &base, input, t, ext, conv, "T4_extra_lines", detail);
        }
    }
}

pub fn run(ctx: &mut Ctx) {
    let mut ps = Parsers::new();
    let all = Extensions::all().bits();
    if ctx.shard == 0 {
        meta_t3(ctx, &mut ps);
    }
    // T1 over fuzz inputs: exhaustive short strings with newlines + random
    let maxlen = if ctx.is_thorough() { 4 } else { 3 };
    let total = alphabet::count_upto(SMALL.len(), maxlen);
    let mut s = String::new();
    let mut idx = ctx.shard as u64;
    while idx < total {
        alphabet::nth(SMALL, idx, &mut s);
        if s.contains('\n') {
            t1(ctx, &mut ps, &s, 0, "empty");
            t1(ctx, &mut ps, &s, all, "bundled");
            ctx.count("inputs_exhaustive_with_newline");
        }
        idx += ctx.nshards as u64;
    }
    let n = ctx.budget(60_000, 6_000_000);
    for k in 0..n {
        let input = match k % 3 {
            0 => alphabet::random(ALPHABET, &mut ctx.rng, 4, 40),
            1 => alphabet::random_structured(ALPHABET, &mut ctx.rng, 30),
            _ => alphabet::mutate(SEEDS[ctx.rng.below(SEEDS.len())], ALPHABET, &mut ctx.rng),
        };
        let (e, c) = if ctx.rng.coin() { (all, "bundled") } else { (0, "empty") };
        t1(ctx, &mut ps, &input, e, c);
        ctx.count("inputs_random");
    }
    // T1 over the `---` fence family (front matter after blank lines, several fences, rule-like heads)
    for (k, doc) in crate::mon::c05::fence_family().iter().enumerate() {
        if ctx.mine(k as u64) && !doc.contains('\r') {
            t1(ctx, &mut ps, doc, all, "bundled");
            t1(ctx, &mut ps, doc, 0, "empty");
            ctx.count("inputs_fence_family");
        }
    }
    // T1-T4 over well-formed generated recipes
    let n = ctx.budget(1_500, 250_000);
    let mut r = Rng::new(ctx.seed ^ 0x17 ^ ((ctx.shard as u64) << 32));
    for i in 0..n {
        let extended = i % 2 == 1;
        let opts = if extended { GenOpts::extended() } else { GenOpts::canonical() };
        let seed = ctx.rng.next();
        let mut rr = Rng::new(seed);
        let spec = g::gen_spec(&mut rr, &opts);
        // the speller itself does not use CRLF here: T1 adds it
        let sp = g::spell(&spec, seed, feat::ALL & !feat::CRLF, (i % 2 + 1) as u32);
        let (e, c) = if extended { (all, "bundled") } else { (0, "empty") };
        ctx.count("wellformed_recipes");
        t1(ctx, &mut ps, &sp.text, e, c);
        t234(ctx, &mut ps, &sp.text, e, c, &mut r);
    }
    for seed in SEEDS {
        if ctx.shard == 0 {
            t1(ctx, &mut ps, seed, all, "bundled");
            t234(ctx, &mut ps, seed, all, "bundled", &mut r);
        }
    }
}

pub fn replay(ctx: &mut Ctx, case: &Case) {
    let mut ps = Parsers::new();
    let orig = case.params["original"].as_str().unwrap_or("").to_string();
    let Some(base) = parse(&mut ps, &orig, case.ext, &case.conv) else { return };
    let t = case.params["transformation"].as_str().unwrap_or("T").to_string();
    let d = case.params["detail"].as_str().unwrap_or("").to_string();
    judge(ctx, &mut ps, &base, &orig, case.input.clone(), case.ext, &case.conv, &t, &d);
}
