//! C09 — unit conversion preserves the physical amount.

use crate::core::{Case, Ctx, Rng};
use crate::units::{self, close, Def};
use cooklang::convert::{ConvertError, ConvertTo, ConvertUnit, ConvertValue, PhysicalQuantity, System, Unit};
use cooklang::quantity::Number;
use cooklang::{Converter, Quantity, ScaledQuantity, Value};
use serde_json::json;
use std::sync::Arc;

const GRID: &[f64] = &[0.0, 1e-9, -1e-9, 0.1, -0.1, 1.0, 3.5, 180.0, 1e6, -1e6, 1e12, 2.0 / 3.0];

fn keys(u: &Unit) -> Vec<String> {
    u.names.iter().chain(&u.symbols).chain(&u.aliases).map(|k| k.to_string()).collect()
}

fn amount(v: &Value) -> Option<(f64, f64)> {
    match v {
        Value::Number(n) => Some((n.value(), n.value())),
        Value::Range { start, end } => Some((start.value(), end.value())),
        Value::Text(_) => None,
    }
}

fn tol_base(def: &Def, base: f64) -> (f64, f64) {
    // relative tolerance on the base amount; absolute floor scaled by the unit and its offset
    (1e-9, 1e-9 * def.factor.max(1.0) + 1e-12 * (def.offset * def.factor).abs() + 1e-12 * base.abs())
}

pub fn table_agreement(ctx: &mut Ctx, conv: &Converter) {
    spellings(ctx, conv, units::SPELLINGS, "bundled");
    // the shipped translation layer on top of the bundled units
    let es = std::fs::read_to_string("/repo/units/spanish.toml").ok().and_then(|t| toml::from_str::<cooklang::convert::UnitsFile>(&t).ok()).and_then(|f| Converter::builder().with_units_file(cooklang::convert::UnitsFile::bundled()).ok()?.with_units_file(f).ok()?.finish().ok());
    match es {
        Some(c) => spellings(ctx, &c, units::SPELLINGS_ES, "bundled+spanish"),
        None => ctx.count("spanish_layer_does_not_build(observation; C16 judges that)"),
    }
    table_definitions(ctx, conv);
}

fn spellings(ctx: &mut Ctx, conv: &Converter, table: &[(&str, &str)], which: &str) {
    // everyday spellings: whichever of them the converter declares must belong to the unit everybody means by it, and
    // converting through the spelling must give the standard amount
    for (spelling, canonical) in table {
        let case = Case::new("table", format!("spelling {spelling} ({which})"), 0, "bundled");
        ctx.evals += 1;
        let Some(u) = units::unit_by_exact_key(conv, spelling) else {
            ctx.count("spellings_not_declared(observation)");
            continue;
        };
        let want = units::def_by_symbol(canonical).unwrap();
        ctx.nontrivial(&case);
        ctx.count("spellings_compared_with_table");
        if u.physical_quantity != want.q || !close(u.ratio, want.factor, 1e-6, 0.0) || !close(u.difference, want.offset, 1e-6, 1e-9) {
            ctx.violation(&case, "table", "spelling_names_another_unit", format!("`{spelling}` is declared by unit {} ({:?}, ratio {}, difference {}) but it means {canonical} (factor {}, offset {})", u.symbol(), u.physical_quantity, u.ratio, u.difference, want.factor, want.offset));
            continue;
        }
        // through the public conversion as well: 100 <spelling> in the canonical spelling of the same unit
        let q = Quantity::new(Value::Number(100.0.into()), Some(spelling.to_string()));
        match crate::core::guarded(|| { let mut q = q.clone(); q.convert(*canonical, conv).map(|_| q) }) {
            Ok(Ok(out)) => {
                if !matches!(amount(out.value()), Some((a, b)) if close(a, 100.0, 1e-9, 1e-9) && close(b, 100.0, 1e-9, 1e-9)) {
                    ctx.violation(&case, "table", "spelling_converts_to_other_amount", format!("100 {spelling} -> {canonical} gave {out}"));
                }
            }
            Ok(Err(e)) => ctx.violation(&case, "table", "spelling_does_not_convert", format!("100 {spelling} -> {canonical}: {e}")),
            Err(p) => ctx.violation(&case, "table", "panic", format!("{p:?}")),
        }
    }
}

fn table_definitions(ctx: &mut Ctx, conv: &Converter) {
    for u in conv.all_units() {
        let case = Case::new("table", u.symbol(), 0, "bundled");
        ctx.evals += 1;
        match units::def_by_symbol(u.symbol()) {
            None => ctx.count("units_not_in_independent_table(observation)"),
            Some(d) => {
                ctx.nontrivial(&case);
                if d.q != u.physical_quantity {
                    ctx.violation(&case, "table", "unit_wrong_quantity", format!("{} is {:?}, table says {:?}", u.symbol(), u.physical_quantity, d.q));
                }
                // the bundled file may use another base (e.g. ratios relative to any unit of the quantity):
                // compare ratios between units, done in pairs(); here compare against litre/metre/gram/second/kelvin
                if !close(u.ratio, d.factor, 1e-6, 0.0) || !close(u.difference, d.offset, 1e-6, 1e-9) {
                    ctx.violation(&case, "table", "definition_differs", format!("{}: ratio {} difference {} but the standard definition is factor {} offset {}", u.symbol(), u.ratio, u.difference, d.factor, d.offset));
                }
                ctx.count("units_compared_with_table");
            }
        }
    }
}

fn check_pair(ctx: &mut Ctx, conv: &Converter, ka: &str, kb: &str, ua: &Arc<Unit>, ub: &Arc<Unit>, vals: &[f64]) {
    let (Some(da), Some(db)) = (units::def_by_symbol(ua.symbol()), units::def_by_symbol(ub.symbol())) else { return };
    for (vi, v) in vals.iter().enumerate() {
        let range = vi % 3 == 2;
        let case = Case::new("pair", format!("{v} {ka} -> {kb}"), 0, "bundled").with(json!({"from": ka, "to": kb, "bits": v.to_bits(), "range": range}));
        ctx.evals += 1;
        // API 1: Converter::convert
        let cv = if range { ConvertValue::Range(*v..=(*v + 1.5)) } else { ConvertValue::Number(*v) };
        let r = match crate::core::guarded(|| conv.convert(cv.clone(), ConvertUnit::Key(ka), ConvertTo::Unit(ConvertUnit::Key(kb)))) {
            Ok(r) => r,
            Err(p) => {
                ctx.panic_violation(&case, "Converter::convert", p);
                continue;
            }
        };
        // API 2: ScaledQuantity::convert
        let orig_val = if range { Value::Range { start: Number::Regular(*v), end: Number::Regular(*v + 1.5) } } else { Value::Number(Number::Regular(*v)) };
        let mut q = Quantity::new(orig_val.clone(), Some(ka.to_string()));
        let before = q.clone();
        let r2 = match crate::core::guarded(|| q.convert(kb, conv).map(|_| q.clone())) {
            Ok(r) => r,
            Err(p) => {
                ctx.panic_violation(&case, "ScaledQuantity::convert", p);
                continue;
            }
        };
        if da.q != db.q {
            ctx.count("cross_quantity_pairs");
            if !matches!(r, Err(ConvertError::MixedQuantities { .. })) {
                ctx.violation(&case, "pair", "cross_quantity_not_rejected", format!("Converter::convert {ka}->{kb} gave {r:?}"));
            }
            match r2 {
                Err(ConvertError::MixedQuantities { .. }) => {
                    if q != before {
                        ctx.violation(&case, "pair", "failed_conversion_mutated", format!("{before:?} became {q:?}"));
                    }
                }
                other => ctx.violation(&case, "pair", "cross_quantity_not_rejected", format!("ScaledQuantity::convert {ka}->{kb} gave {other:?}")),
            }
            continue;
        }
        ctx.count("same_quantity_pairs");
        ctx.nontrivial(&case);
        let expect = |x: f64| db.from_base(da.to_base(x));
        let ends: Vec<f64> = if range { vec![*v, *v + 1.5] } else { vec![*v] };
        match r {
            Ok((cv2, unit)) => {
                if unit.symbol() != ub.symbol() {
                    ctx.violation(&case, "pair", "wrong_target_unit", format!("asked {kb} got {}", unit.symbol()));
                }
                let got: Vec<f64> = match cv2 {
                    ConvertValue::Number(n) => vec![n],
                    ConvertValue::Range(r) => vec![*r.start(), *r.end()],
                };
                for (g, x) in got.iter().zip(&ends) {
                    let e = expect(*x);
                    let (rel, abs) = tol_base(&db, db.to_base(e));
                    if !close(*g, e, 1e-6, 1e-9) || !close(db.to_base(*g), db.to_base(e), rel.max(1e-6), abs) {
                        ctx.violation(&case, "pair", "amount_differs_from_definition", format!("{x} {ka} -> {g} {kb}, standard definitions give {e}"));
                    }
                }
            }
            Err(e) => ctx.violation(&case, "pair", "same_quantity_conversion_failed", format!("{ka}->{kb}: {e}")),
        }
        match r2 {
            Ok(q2) => {
                if q2.unit() != Some(ub.symbol()) {
                    ctx.violation(&case, "pair", "wrong_target_unit", format!("ScaledQuantity asked {kb} got {:?}", q2.unit()));
                }
                let Some((s, e_)) = amount(q2.value()) else { continue };
                let got = if range { vec![s, e_] } else { vec![s] };
                for (g, x) in got.iter().zip(&ends) {
                    let e = expect(*x);
                    if !close(*g, e, 1e-6, 1e-9) {
                        ctx.violation(&case, "pair", "amount_differs_from_definition", format!("ScaledQuantity {x} {ka} -> {q2} ({:?}), standard definitions give {e}", q2.value()));
                    }
                }
                if matches!(q2.value(), Value::Number(Number::Fraction { .. })) {
                    ctx.count("pair_results_as_fraction");
                }
            }
            Err(e) => ctx.violation(&case, "pair", "same_quantity_conversion_failed", format!("ScaledQuantity {ka}->{kb}: {e}")),
        }
    }
}

fn triples(ctx: &mut Ctx, conv: &Converter) {
    let all: Vec<&Unit> = conv.all_units().collect();
    let mut k = 0u64;
    for a in &all {
        for b in &all {
            if a.physical_quantity != b.physical_quantity {
                continue;
            }
            for c in &all {
                if c.physical_quantity != a.physical_quantity {
                    continue;
                }
                k += 1;
                if !ctx.mine(k) {
                    continue;
                }
                for v in [0.1, 1.0, 3.5, 180.0, 1e6, -40.0] {
                    let case = Case::new("triple", format!("{v} {} -> {} -> {}", a.symbol(), b.symbol(), c.symbol()), 0, "bundled");
                    ctx.evals += 1;
                    let conv1 = |x: f64, f: &str, t: &str| -> Option<f64> {
                        match conv.convert(ConvertValue::Number(x), ConvertUnit::Key(f), ConvertTo::Unit(ConvertUnit::Key(t))) {
                            Ok((ConvertValue::Number(n), _)) => Some(n),
                            _ => None,
                        }
                    };
                    let r = crate::core::guarded(|| {
                        let ab = conv1(v, a.symbol(), b.symbol())?;
                        let abc = conv1(ab, b.symbol(), c.symbol())?;
                        let ac = conv1(v, a.symbol(), c.symbol())?;
                        let aba = conv1(ab, b.symbol(), a.symbol())?;
                        Some((abc, ac, aba))
                    });
                    match r {
                        Err(p) => ctx.panic_violation(&case, "triple", p),
                        Ok(None) => ctx.violation(&case, "triple", "conversion_failed", "a same-quantity conversion failed".into()),
                        Ok(Some((abc, ac, aba))) => {
                            ctx.nontrivial(&case);
                            // compare in base units so that temperature offsets do not distort relative error
                            let base = |u: &Unit, x: f64| (x + u.difference) * u.ratio;
                            let scale = base(a, v).abs().max(a.difference.abs() * a.ratio).max(1e-300);
                            if (base(c, abc) - base(c, ac)).abs() > 1e-9 * scale {
                                ctx.violation(&case, "triple", "via_third_unit_disagrees", format!("via {}: {abc}, direct: {ac}", b.symbol()));
                            }
                            if (base(a, aba) - base(a, v)).abs() > 1e-9 * scale {
                                ctx.violation(&case, "triple", "round_trip_disagrees", format!("{v} -> {} -> back = {aba}", b.symbol()));
                            }
                        }
                    }
                }
            }
        }
    }
    ctx.notes.insert("ordered_triples".into(), k.into());
}

/// base amount by the converter's own definition of the unit (its agreement with the standard
/// definitions is checked separately, to 1e-6, by `table_agreement` and `check_pair`)
fn base_amount(conv: &Converter, q: &ScaledQuantity) -> Option<(PhysicalQuantity, f64, f64)> {
    let u = units::unit_by_exact_key(conv, q.unit()?)?;
    let (s, e) = amount(q.value())?;
    let b = |x: f64| (x + u.difference) * u.ratio;
    Some((u.physical_quantity, b(s), b(e)))
}

/// to-system / fit on single quantities
fn system_and_fit(ctx: &mut Ctx, conv: &Converter) {
    let all: Vec<Arc<Unit>> = conv.all_units().map(|u| conv.find_unit(u.symbol()).unwrap()).collect();
    let mut r = Rng::new(ctx.seed ^ 0x5157);
    let n = ctx.budget(60_000, 12_000_000);
    for i in 0..n {
        let u = &all[r.below(all.len())];
        let ks = keys(u);
        let key = &ks[r.below(ks.len())];
        let v = match i % 4 {
            0 => GRID[r.below(GRID.len())].abs(),
            1 => (r.below(2000) as f64) / 8.0,
            _ => r.log_uniform(1e-4, 1e5),
        };
        let range = i % 5 == 0;
        let val = if range { Value::Range { start: Number::Regular(v), end: Number::Regular(v * 1.5 + 1.0) } } else { Value::Number(Number::Regular(v)) };
        let orig = Quantity::new(val, Some(key.clone()));
        let Some((pq, ob_s, ob_e)) = base_amount(conv, &orig) else { continue };
        for op in 0..5 {
            let case = Case::new("system", format!("{orig} op{op}"), 0, "bundled").with(json!({"op": op, "bits": v.to_bits(), "unit": key, "range": range}));
            ctx.evals += 1;
            let mut q = orig.clone();
            // op 3 / 4: a lossy conversion first (it may record a fraction error), then fit / the other system and fit:
            // the recorded error is part of the amount and has to survive the second call
            let sys = if op == 0 { Some(System::Metric) } else if op == 1 { Some(System::Imperial) } else { None };
            let res = crate::core::guarded(|| match op {
                0 | 1 => q.convert(sys.unwrap(), conv),
                2 => q.fit(conv),
                3 => q.convert(System::Imperial, conv).and_then(|_| q.fit(conv)),
                _ => q.convert(System::Imperial, conv).and_then(|_| q.convert(System::Metric, conv)).and_then(|_| q.convert(System::Imperial, conv)).and_then(|_| q.fit(conv)),
            });
            if op >= 3 {
                ctx.count("conversion_sequences");
            }
            let res = match res {
                Ok(r) => r,
                Err(p) => {
                    ctx.panic_violation(&case, "convert/fit", p);
                    continue;
                }
            };
            if let Err(e) = res {
                ctx.violation(&case, "system", "conversion_of_known_unit_failed", format!("{orig} -> {e}"));
                continue;
            }
            let Some(nu) = q.unit().and_then(|u| conv.find_unit(u)) else {
                ctx.violation(&case, "system", "result_unit_unknown", format!("{orig} -> {q}"));
                continue;
            };
            // fitting stays in the unit's own system; a unit without a system uses the converter's default system
            // (units_file rustdoc: "the unit doesn't belong to one, so the default is used")
            let target_sys = match (op, sys) {
                (_, Some(s)) => Some(s),
                (2, None) => u.system.or(Some(conv.default_system())),
                _ => Some(System::Imperial),
            };
            let allowed = conv.best_units(pq, target_sys);
            if !allowed.iter().any(|a| a.symbol() == nu.symbol()) {
                ctx.violation(&case, "system", "unit_not_in_designated_list", format!("{orig} -> {q}: {} is not in {:?} for {target_sys:?}", nu.symbol(), allowed.iter().map(|a| a.symbol().to_string()).collect::<Vec<_>>()));
            }
            let Some((_, nb_s, nb_e)) = base_amount(conv, &q) else {
                ctx.violation(&case, "system", "result_not_numeric", format!("{orig} -> {q}"));
                continue;
            };
            let d = units::def_of(conv, key).unwrap();
            let (rel, abs) = tol_base(&d, ob_s);
            if !close(nb_s, ob_s, rel.max(1e-9), abs) || !close(nb_e, ob_e, rel.max(1e-9), abs) {
                ctx.violation(&case, "system", "amount_not_preserved", format!("{orig} -> {q} ({:?}): base amount {ob_s}..{ob_e} became {nb_s}..{nb_e}", q.value()));
            } else {
                ctx.nontrivial(&case);
                ctx.count(match q.value() {
                    Value::Number(Number::Fraction { .. }) => "system_results_fraction",
                    Value::Range { .. } => "system_results_range",
                    _ => "system_results_regular",
                });
                if ctx.evals % 50_000 == 1 {
                    ctx.sample(json!({"from": orig.to_string(), "op": (["to metric", "to imperial", "fit", "to imperial, fit", "imperial, metric, imperial, fit"][op]), "to": q.to_string(), "value": format!("{:?}", q.value())}));
                }
            }
        }
    }
}

fn failures(ctx: &mut Ctx, conv: &Converter) {
    let cases: Vec<(ScaledQuantity, &str)> = vec![
        (Quantity::new(Value::Text("some".into()), Some("kg".into())), "text"),
        (Quantity::new(Value::Text("some".into()), None), "nounit"),
        // text that looks like a number to somebody (a thousands separator, a decimal comma, an exponent) is still text
        (Quantity::new(Value::Text("1,000".into()), Some("ml".into())), "text"),
        (Quantity::new(Value::Text("1,5".into()), Some("kg".into())), "text"),
        (Quantity::new(Value::Text("1e3".into()), Some("g".into())), "text"),
        (Quantity::new(Value::Text("2".into()), Some("cup".into())), "text"),
        (Quantity::new(Value::Text("1/2".into()), Some("tsp".into())), "text"),
        (Quantity::new(Value::Text("½".into()), Some("l".into())), "text"),
        (Quantity::new(Value::Number(Number::Regular(2.0)), None), "nounit"),
        (Quantity::new(Value::Number(Number::Regular(2.0)), Some("pinch".into())), "unknown"),
        (Quantity::new(Value::Range { start: Number::Regular(1.0), end: Number::Regular(2.0) }, Some("handfuls".into())), "unknown"),
        (Quantity::new(Value::Number(Number::Fraction { whole: 1, num: 1, den: 2, err: 0.0 }), Some("".into())), "unknown"),
    ];
    for (q0, kind) in cases {
        for target in 0..4 {
            let case = Case::new("failure", format!("{q0:?} target{target}"), 0, "bundled");
            ctx.evals += 1;
            let mut q = q0.clone();
            let res = crate::core::guarded(|| match target {
                0 => q.convert(System::Metric, conv),
                1 => q.convert(System::Imperial, conv),
                2 => q.convert("kg", conv),
                _ => q.convert(ConvertTo::SameSystem, conv),
            });
            match res {
                Err(p) => ctx.panic_violation(&case, "convert", p),
                Ok(Ok(())) => ctx.violation(&case, "failure", "unconvertible_accepted", format!("{q0:?} converted to {q:?}")),
                Ok(Err(e)) => {
                    let ok = matches!((kind, &e), ("text", ConvertError::TextValue(_)) | ("nounit", ConvertError::NoUnit(_)) | ("unknown", ConvertError::UnknownUnit(_)));
                    if !ok {
                        ctx.violation(&case, "failure", "wrong_error_variant", format!("{q0:?}: {e:?}"));
                    }
                    if q != q0 {
                        ctx.violation(&case, "failure", "failed_conversion_mutated", format!("{q0:?} became {q:?}"));
                    } else {
                        ctx.nontrivial(&case);
                        ctx.count("failures_checked");
                    }
                }
            }
        }
    }
}

/// A later layer that takes spellings away from units (`precedence = "override"` replaces the lists it gives): the
/// removed spellings are unknown units afterwards — converting or fitting them fails and leaves the quantity as it is —
/// while the spellings that stay convert as before.
fn removed_spellings(ctx: &mut Ctx) {
    let layer = "[extend]\nprecedence = \"override\"\n[extend.units]\nl = { names = [\"litro\", \"litros\"] }\ngal = { names = [\"galón\", \"galones\"], symbols = [\"gln\"] }\ntbsp = { symbols = [\"tbsp\"] }\nminute = { names = [\"minute\"], symbols = [\"min\"], aliases = [] }\n";
    let Some(conv) = toml::from_str::<cooklang::convert::UnitsFile>(layer).ok().and_then(|f| Converter::builder().with_units_file(cooklang::convert::UnitsFile::bundled()).ok()?.with_units_file(f).ok()?.finish().ok()) else {
        ctx.harness_errors.push("C09: the override layer does not build".into());
        return;
    };
    // (spelling, still known after the layer, a unit of the same quantity to convert to, expected amount of 2 <spelling> in it)
    let table: [(&str, bool, &str, f64); 16] = [
        ("liter", false, "ml", 0.0), ("litres", false, "ml", 0.0), ("litro", true, "ml", 2000.0), ("l", true, "ml", 2000.0), ("L", true, "ml", 2000.0),
        ("gal", false, "l", 0.0), ("gallons", false, "l", 0.0), ("gln", true, "l", 2.0 * 3.785411784), ("galones", true, "l", 2.0 * 3.785411784),
        ("tbs", false, "ml", 0.0), ("tbsp.", false, "ml", 0.0), ("tbsp", true, "ml", 2.0 * 14.78676478125), ("tablespoons", true, "ml", 2.0 * 14.78676478125),
        ("minutes", false, "s", 0.0), ("mins", false, "s", 0.0), ("min", true, "s", 120.0),
    ];
    for (key, known, to, want) in table {
        let q0: ScaledQuantity = Quantity::new(Value::Number(Number::Regular(2.0)), Some(key.to_string()));
        for target in 0..3 {
            let case = Case::new("removed_spelling", format!("2 {key} target{target}"), 0, "bundled+override layer");
            ctx.evals += 1;
            let mut q = q0.clone();
            let res = crate::core::guarded(|| match target {
                0 => q.convert(to, &conv),
                1 => q.convert(System::Metric, &conv),
                _ => q.fit(&conv),
            });
            match (known, res) {
                (_, Err(p)) => ctx.panic_violation(&case, "convert", p),
                // `fit` of a quantity it cannot handle may report success as long as it leaves the quantity alone
                (false, Ok(Ok(()))) if target == 2 && q == q0 => {
                    ctx.nontrivial(&case);
                    ctx.count("removed_spellings_refused");
                }
                (false, Ok(Ok(()))) => ctx.violation(&case, "failure", "removed_spelling_still_converts", format!("`{key}` was taken away by the override layer, yet 2 {key} became {q}")),
                (false, Ok(Err(_))) => {
                    if q != q0 {
                        ctx.violation(&case, "failure", "failed_conversion_mutated", format!("{q0:?} became {q:?}"));
                    } else {
                        ctx.nontrivial(&case);
                        ctx.count("removed_spellings_refused");
                    }
                }
                (true, Ok(r)) => {
                    if target == 0 {
                        let got = amount(q.value()).map(|a| a.0);
                        if r.is_err() || !matches!(got, Some(g) if close(g, want, 1e-6, 1e-9)) {
                            ctx.violation(&case, "failure", "kept_spelling_converts_wrongly", format!("2 {key} -> {to}: {r:?}, {q} (expected {want})"));
                        } else {
                            ctx.nontrivial(&case);
                            ctx.count("kept_spellings_convert");
                        }
                    }
                }
            }
        }
    }
}

/// Mixed numbers whose whole part is in the billions (the parser builds them for `{3000000000 1/2%g}`): their value is
/// whole + num/den whatever the size, through `value()`, conversion and fitting.
fn big_mixed_numbers(ctx: &mut Ctx, conv: &Converter) {
    for (whole, num, den) in [(3_000_000_000u32, 1u32, 2u32), (4_294_967_295, 1, 2), (2_147_483_648, 3, 4), (1_431_655_766, 2, 3), (536_870_912, 7, 8), (4_000_000_000, 15, 16), (268_435_456, 1, 16)] {
        let n = Number::Fraction { whole, num, den, err: 0.0 };
        let exact = whole as f64 + num as f64 / den as f64;
        for (from, to, factor) in [("g", "kg", 1e-3), ("ml", "l", 1e-3), ("s", "min", 1.0 / 60.0), ("g", "g", 1.0)] {
            let case = Case::new("big_mixed", format!("{whole} {num}/{den} {from} -> {to}"), 0, "bundled");
            ctx.evals += 1;
            let res = crate::core::guarded(|| {
                let v = n.value();
                let mut q: ScaledQuantity = Quantity::new(Value::Number(n), Some(from.to_string()));
                let r = if from == to { Ok(()) } else { q.convert(to, conv) };
                (v, r.is_ok(), amount(q.value()).map(|a| a.0))
            });
            match res {
                Err(p) => ctx.panic_violation(&case, "value/convert", p),
                Ok((v, ok, got)) => {
                    if !close(v, exact, 1e-12, 0.0) || !ok || !matches!(got, Some(g) if close(g, exact * factor, 1e-9, 0.0)) {
                        ctx.violation(&case, "pair", "big_mixed_number_misread", format!("value() = {v}, fields say {exact}; converted ok={ok} to {got:?}, expected {}", exact * factor));
                    } else {
                        ctx.nontrivial(&case);
                        ctx.count("big_mixed_numbers_ok");
                    }
                }
            }
        }
    }
}

/// Three layers, the last two editing the same unit: the last one has the last word.
fn later_layer_wins(ctx: &mut Ctx) {
    let build = |layers: &[&str]| -> Option<Converter> {
        let mut b = Converter::builder().with_units_file(cooklang::convert::UnitsFile::bundled()).ok()?;
        for l in layers {
            b = b.with_units_file(toml::from_str::<cooklang::convert::UnitsFile>(l).ok()?).ok()?;
        }
        b.finish().ok()
    };
    // (layers, quantity, unit, target, expected amount)
    let cases: [(&[&str], f64, &str, &str, f64); 5] = [
        (&["[extend.units]\ncup = { ratio = 0.24 }\n", "[extend.units]\ncup = { ratio = 0.25 }\n"], 2.0, "cup", "ml", 500.0),
        (&["[extend.units]\ncup = { ratio = 0.25 }\n", "[extend.units]\ncup = { ratio = 0.24 }\n"], 2.0, "cup", "ml", 480.0),
        (&["[extend.units]\ncup = { ratio = 0.24 }\n", "[extend.units]\ntsp = { ratio = 0.005 }\n", "[extend.units]\ncup = { ratio = 0.25 }\n"], 1.0, "l", "cup", 4.0),
        (&["[extend.units]\nF = { difference = 460 }\n", "[extend.units]\nF = { difference = 459.67 }\n"], 32.0, "F", "C", 0.0),
        (&["[extend.units]\nlb = { ratio = 500 }\n", "[extend.units]\noz = { ratio = 30 }\n", "[extend.units]\nlb = { ratio = 453.59237 }\n"], 2.0, "lb", "g", 907.18474),
    ];
    for (layers, v, from, to, want) in cases {
        let case = Case::new("layer_order", format!("{layers:?}: {v} {from} -> {to}"), 0, "bundled+layers");
        ctx.evals += 1;
        let Some(conv) = build(layers) else {
            ctx.count("layer_order_converter_not_built(observation; C16 judges that)");
            continue;
        };
        let mut q: ScaledQuantity = Quantity::new(Value::Number(Number::Regular(v)), Some(from.to_string()));
        match crate::core::guarded(|| q.convert(to, &conv)) {
            Err(p) => ctx.panic_violation(&case, "convert", p),
            Ok(r) => {
                let got = amount(q.value()).map(|a| a.0);
                if r.is_err() || !matches!(got, Some(g) if close(g, want, 1e-6, 1e-6)) {
                    ctx.violation(&case, "layers", "later_layer_does_not_have_the_last_word", format!("{v} {from} -> {to}: {r:?}, {q} (expected {want})"));
                } else {
                    ctx.nontrivial(&case);
                    ctx.count("layer_order_ok");
                }
            }
        }
    }
}

/// whole recipes through ScaledRecipe::convert
struct Sp1 {
    text: String,
}

fn recipes(ctx: &mut Ctx, conv: &Converter) {
    use crate::gen::recipe::{self as g, feat, GenOpts};
    let parser = cooklang::CooklangParser::new(cooklang::Extensions::all(), conv.clone());
    let n = ctx.budget(3_000, 1_200_000);
    let opts = GenOpts::extended();
    // without ADVANCED_UNITS a timer may carry any unit: it is a quantity of the recipe like the others
    let no_adv = cooklang::Extensions::all() ^ cooklang::Extensions::ADVANCED_UNITS;
    let parser_no_adv = cooklang::CooklangParser::new(no_adv, conv.clone());
    let handwritten = [
        "Pour @stock{250%ml} and reduce ~{250%ml}, then rest ~{90%min}.\n",
        "Fill ~{1%cup} of @water{2%cups} and keep ~x{3%lb} near 20 °C or 70 F.\n",
        "Wait ~{2-3%l} then ~{1/2%oz} and add @a{1%kg} @&a{2%lb}.\n",
    ];
    for it in 0..n + handwritten.len() as u64 {
        let seed = ctx.rng.next();
        let (text, parser, ext) = if (it as usize) < handwritten.len() {
            if ctx.shard != 0 {
                continue;
            }
            ctx.count("recipes_with_non_time_timers");
            (handwritten[it as usize].to_string(), &parser_no_adv, no_adv.bits())
        } else {
            let mut r = Rng::new(seed);
            let spec = g::gen_spec(&mut r, &opts);
            (g::spell(&spec, seed, feat::ALL, 1).text, &parser, cooklang::Extensions::all().bits())
        };
        let sp = Sp1 { text };
        let case = Case::new("recipe", sp.text.as_str(), ext, "bundled");
        ctx.evals += 1;
        let Ok(Some(recipe)) = crate::core::guarded(|| parser.parse(&sp.text).into_output()) else { continue };
        for sys in [System::Metric, System::Imperial] {
            let Ok(Some(recipe2)) = crate::core::guarded(|| parser.parse(&sp.text).into_output()) else { continue };
            let _ = &recipe;
            let mut scaled = recipe2.default_scale();
            let before: Vec<ScaledQuantity> = scaled
                .ingredients
                .iter()
                .filter_map(|i| i.quantity.clone())
                .chain(scaled.timers.iter().filter_map(|t| t.quantity.clone()))
                .chain(scaled.inline_quantities.iter().cloned())
                .collect();
            let errs = match crate::core::guarded(|| scaled.convert(sys, conv)) {
                Ok(e) => e,
                Err(p) => {
                    ctx.panic_violation(&case, "ScaledRecipe::convert", p);
                    continue;
                }
            };
            let after: Vec<ScaledQuantity> = scaled
                .ingredients
                .iter()
                .filter_map(|i| i.quantity.clone())
                .chain(scaled.timers.iter().filter_map(|t| t.quantity.clone()))
                .chain(scaled.inline_quantities.iter().cloned())
                .collect();
            let mut expected_errors = 0;
            for (b, a) in before.iter().zip(&after) {
                let convertible = !matches!(b.value(), Value::Text(_)) && b.unit().and_then(|u| conv.find_unit(u)).is_some();
                if !convertible {
                    expected_errors += 1;
                    if a != b {
                        ctx.violation(&case, "recipe", "unconvertible_quantity_changed", format!("{b:?} became {a:?}"));
                    }
                    continue;
                }
                ctx.count("recipe_quantities_converted");
                let (Some((pq, bs, be)), Some((_, as_, ae))) = (base_amount(conv, b), base_amount(conv, a)) else {
                    ctx.violation(&case, "recipe", "result_not_numeric", format!("{b} -> {a}"));
                    continue;
                };
                let d = units::def_of(conv, b.unit().unwrap()).unwrap();
                let (rel, abs) = tol_base(&d, bs);
                if !close(as_, bs, rel, abs) || !close(ae, be, rel, abs) {
                    ctx.violation(&case, "recipe", "amount_not_preserved", format!("{b} -> {a} ({:?})", a.value()));
                }
                let nu = conv.find_unit(a.unit().unwrap()).unwrap();
                if !conv.best_units(pq, Some(sys)).iter().any(|x| x.symbol() == nu.symbol()) {
                    ctx.violation(&case, "recipe", "unit_not_in_designated_list", format!("{b} -> {a} for {sys}"));
                }
            }
            if errs.len() != expected_errors {
                ctx.violation(&case, "recipe", "error_count_mismatch", format!("{} errors returned, {expected_errors} quantities are not convertible", errs.len()));
            } else if !before.is_empty() {
                ctx.nontrivial(&case);
            }
        }
    }
}

/// A converter made of layers: the bundled file plus a user layer that re-bases the mass units on the kilogram (edits
/// the ratio of an SI-expanded unit), makes imperial the default system and adds a volume unit without a system.
/// The standard definitions still hold between units (1 kg = 1000 g whatever the base is).
pub fn layered_converter() -> Option<Converter> {
    let layer: cooklang::convert::UnitsFile = toml::from_str(
        "default_system = \"imperial\"\n[extend.units]\ng = { ratio = 0.001 }\noz = { ratio = 0.028349523125 }\nlb = { ratio = 0.45359237 }\ncelsius = { aliases = [\"centigrados\"] }\nfahrenheit = { aliases = [\"farenheit\"] }\n\n[[quantity]]\nquantity = \"volume\"\nbest = { metric = [\"dl\", \"l\"], imperial = [\"cup\", \"tsp\"] }\n[quantity.units]\nunspecified = [{ names = [\"dash\", \"dashes\"], symbols = [\"ds\"], ratio = 0.000616115 }]\n\n[[quantity]]\nquantity = \"temperature\"\n[quantity.units]\nmetric = [{ names = [\"kelvin\"], symbols = [\"K\"], ratio = 1 }]\n",
    )
    .ok()?;
    Converter::builder().with_units_file(cooklang::convert::UnitsFile::bundled()).ok()?.with_units_file(layer).ok()?.finish().ok()
}

/// ratios between units of one quantity agree with the quotient of their standard definitions (independent of the base)
fn table_quotients(ctx: &mut Ctx, conv: &Converter) {
    let all: Vec<&Unit> = conv.all_units().collect();
    for a in &all {
        for b in &all {
            let (Some(da), Some(db)) = (units::def_by_symbol(a.symbol()), units::def_by_symbol(b.symbol())) else { continue };
            if a.physical_quantity != b.physical_quantity || da.q != db.q {
                continue;
            }
            ctx.evals += 1;
            let case = Case::new("table", format!("{}/{}", a.symbol(), b.symbol()), 0, "layered");
            if !close(a.ratio / b.ratio, da.factor / db.factor, 1e-6, 0.0) {
                ctx.violation(&case, "table", "ratio_quotient_differs", format!("{} / {}: the converter's ratios give {} but the standard definitions give {}", a.symbol(), b.symbol(), a.ratio / b.ratio, da.factor / db.factor));
            } else {
                ctx.count("unit_ratio_quotients_compared_with_table");
            }
        }
    }
}

fn layered(ctx: &mut Ctx) {
    let Some(conv) = layered_converter() else {
        ctx.harness_errors.push("the layered converter of C09 does not build".into());
        return;
    };
    if ctx.shard == 0 {
        table_quotients(ctx, &conv);
    }
    let all: Vec<Arc<Unit>> = conv.all_units().map(|u| conv.find_unit(u.symbol()).unwrap()).collect();
    let mut k = 0u64;
    for a in &all {
        for b in &all {
            k += 1;
            // mass (re-based) and volume (new unit without a system) are the quantities the layer touches
            let touched = |u: &Unit| matches!(u.physical_quantity, PhysicalQuantity::Mass | PhysicalQuantity::Volume | PhysicalQuantity::Temperature);
            if !ctx.mine(k) || !touched(a) || !touched(b) || units::def_by_symbol(a.symbol()).is_none() || units::def_by_symbol(b.symbol()).is_none() {
                continue;
            }
            check_pair(ctx, &conv, a.symbol(), b.symbol(), a, b, &[3.5, 0.0, 180.0, 1e6]);
            ctx.count("layered_pairs");
        }
    }
    // the best lists are those of the LAST layer that gives one (documented: "always replace"), known here from the layer text
    for (sys, want) in [(System::Metric, vec!["dl", "l"]), (System::Imperial, vec!["tsp", "c"])] {
        let got: Vec<String> = conv.best_units(PhysicalQuantity::Volume, Some(sys)).iter().map(|u| u.symbol().to_string()).collect();
        let case = Case::new("system", format!("best list volume {sys}"), 0, "layered");
        ctx.evals += 1;
        if got != want {
            ctx.violation(&case, "system", "best_list_not_of_last_layer", format!("the last layer designates {want:?} for volume/{sys}, the converter reports {got:?}"));
        } else {
            ctx.count("layered_best_list_ok");
        }
        for (v, u) in [(50.0, "ml"), (2.0, "tsp"), (0.04, "l"), (0.25, "cup"), (3.0, "l"), (700.0, "ds")] {
            let orig = Quantity::new(Value::Number(Number::Regular(v)), Some(u.to_string()));
            let mut q = orig.clone();
            if let Ok(Ok(())) = crate::core::guarded(|| q.convert(sys, &conv)) {
                let sym = q.unit().and_then(|x| conv.find_unit(x)).map(|x| x.symbol().to_string()).unwrap_or_default();
                if !want.contains(&sym.as_str()) {
                    ctx.violation(&case, "system", "unit_not_in_designated_list", format!("{orig} to {sys} -> {q}: {sym} is not in the list {want:?} the last layer designates"));
                }
            }
        }
    }
    // fitting a unit that has no system: the default system (imperial here) decides the list
    for v in [96.0, 400.0, 3.0, 1e4, 0.5] {
        for range in [false, true] {
            let val = if range { Value::Range { start: Number::Regular(v), end: Number::Regular(v * 2.0) } } else { Value::Number(Number::Regular(v)) };
            let orig = Quantity::new(val, Some("ds".to_string()));
            let case = Case::new("system", format!("{orig} fit (layered, default system imperial)"), 0, "layered");
            ctx.evals += 1;
            let mut q = orig.clone();
            match crate::core::guarded(|| q.fit(&conv)) {
                Err(p) => ctx.panic_violation(&case, "fit", p),
                Ok(Err(e)) => ctx.violation(&case, "system", "conversion_of_known_unit_failed", format!("{orig} -> {e}")),
                Ok(Ok(())) => {
                    let allowed: Vec<String> = vec!["tsp".to_string(), "c".to_string()];
                    let got = q.unit().and_then(|u| conv.find_unit(u)).map(|u| u.symbol().to_string()).unwrap_or_default();
                    let (ob, nb) = (base_amount(&conv, &orig), base_amount(&conv, &q));
                    let same = match (ob, nb) {
                        (Some((_, a, b)), Some((_, c, d))) => close(a, c, 1e-9, 1e-12) && close(b, d, 1e-9, 1e-12),
                        _ => false,
                    };
                    if !allowed.contains(&got) {
                        ctx.violation(&case, "system", "unit_not_in_designated_list", format!("{orig} -> {q}: {got} is not in the imperial list {allowed:?} although imperial is the default system and `ds` has none"));
                    } else if !same {
                        ctx.violation(&case, "system", "amount_not_preserved", format!("{orig} -> {q}"));
                    } else {
                        ctx.count("layered_fit_of_systemless_unit_ok");
                    }
                }
            }
        }
    }
}

pub fn run(ctx: &mut Ctx) {
    layered(ctx);
    let conv = Converter::bundled();
    if ctx.shard == 0 {
        table_agreement(ctx, &conv);
        failures(ctx, &conv);
        removed_spellings(ctx);
        later_layer_wins(ctx);
        big_mixed_numbers(ctx, &conv);
    }
    // all ordered pairs of units, by every key of each
    let all: Vec<Arc<Unit>> = conv.all_units().map(|u| conv.find_unit(u.symbol()).unwrap()).collect();
    ctx.notes.insert("bundled_units".into(), all.len().into());
    let mut rr = Rng::new(ctx.seed ^ 0xBEEF);
    let mut k = 0u64;
    let mut key_pairs = 0u64;
    for a in &all {
        for b in &all {
            k += 1;
            if !ctx.mine(k) {
                continue;
            }
            let ka = keys(a);
            let kb = keys(b);
            // canonical symbols with the full grid; every other key pair with a short grid
            let mut vals: Vec<f64> = GRID.to_vec();
            for _ in 0..(if ctx.is_thorough() { 40 } else { 6 }) {
                vals.push(rr.log_uniform(1e-6, 1e6) * if rr.coin() { 1.0 } else { -1.0 });
            }
            check_pair(ctx, &conv, a.symbol(), b.symbol(), a, b, &vals);
            for x in &ka {
                for y in &kb {
                    key_pairs += 1;
                    if x == a.symbol() && y == b.symbol() {
                        continue;
                    }
                    check_pair(ctx, &conv, x, y, a, b, &[3.5, 0.0, 180.0]);
                }
            }
        }
    }
    ctx.notes.insert("ordered_unit_pairs".into(), k.into());
    ctx.count_n("key_pairs", key_pairs);
    ctx.exhaustive = true;
    triples(ctx, &conv);
    system_and_fit(ctx, &conv);
    recipes(ctx, &conv);
}

pub fn replay(ctx: &mut Ctx, case: &Case) {
    let conv = Converter::bundled();
    match case.kind.as_str() {
        "pair" => {
            let (ka, kb) = (case.params["from"].as_str().unwrap(), case.params["to"].as_str().unwrap());
            let (a, b) = (conv.find_unit(ka).unwrap(), conv.find_unit(kb).unwrap());
            let v = f64::from_bits(case.params["bits"].as_u64().unwrap());
            let vals = if case.params["range"].as_bool().unwrap_or(false) { vec![0.0, 0.0, v] } else { vec![v] };
            check_pair(ctx, &conv, ka, kb, &a, &b, &vals);
        }
        "table" => table_agreement(ctx, &conv),
        "failure" => failures(ctx, &conv),
        _ => {
            ctx.nshards = 1;
            triples(ctx, &conv);
            system_and_fit(ctx, &conv);
            recipes(ctx, &conv);
        }
    }
}
