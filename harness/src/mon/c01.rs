//! C01 — every documented spelling of a recipe parses, without errors, to exactly that recipe.
//! Oracle: the reference semantics of gen::recipe (rules, not parser code).

use crate::core::{Case, Ctx, Parsers, Rng};
use crate::gen::recipe::{self as g, feat, GenOpts, Spec};
use cooklang::Extensions;
use serde_json::{json, Value as J};

/// feature classes the speller may use; see DESIGN.md (speller exclusion list)
pub const MASK: u32 = feat::ALL;

pub struct Outcome {
    pub ok: bool,
    pub cause: String,
    pub message: String,
}

/// parse `text` and compare with the expected image
pub fn judge(ps: &mut Parsers, text: &str, ext: u32, conv: &str, expected: &J, meta_order: &[String]) -> Result<Outcome, crate::core::PanicRec> {
    let parser = ps.parser(ext, conv).clone();
    let r = crate::core::guarded(|| parser.parse(text))?;
    let errors: Vec<String> = r.report().errors().map(|e| e.message.to_string()).collect();
    if !errors.is_empty() {
        return Ok(Outcome { ok: false, cause: "unexpected_error".into(), message: format!("errors: {errors:?}") });
    }
    let Some(recipe) = r.output() else {
        return Ok(Outcome { ok: false, cause: "no_output".into(), message: "no output and no error".into() });
    };
    let actual = serde_json::to_value(recipe).expect("recipe to json");
    let mut path = String::new();
    if let Some((p, exp, act)) = g::json_diff(expected, &actual, &mut path) {
        return Ok(Outcome { ok: false, cause: g::path_class(&p), message: format!("at {p}: expected {exp} but parsed {act}") });
    }
    let order: Vec<String> = recipe.metadata.map.keys().map(|k| k.as_str().unwrap_or("?").to_string()).collect();
    if order != meta_order {
        return Ok(Outcome { ok: false, cause: "metadata_order".into(), message: format!("expected key order {meta_order:?} got {order:?}") });
    }
    Ok(Outcome { ok: true, cause: String::new(), message: String::new() })
}

fn config(extended: bool) -> (u32, &'static str) {
    if extended {
        (Extensions::all().bits(), "bundled")
    } else {
        (Extensions::empty().bits(), "empty")
    }
}

/// one (spec, spelling) execution
pub fn check_spelling(ctx: &mut Ctx, ps: &mut Parsers, spec: &Spec, spell_seed: u64, level: u32, spec_id: u64) {
    let sp = g::spell(spec, spell_seed, MASK, level);
    let (ext, conv) = config(spec.extended);
    let Some(expected) = &sp.expected else {
        ctx.count("generator_rejects");
        ctx.count(&format!("generator_rejects:{}", sp.reject.as_deref().unwrap_or("?")));
        return;
    };
    let case = Case::new("g1", sp.text.as_str(), ext, conv);
    ctx.begin(&case);
    match judge(ps, &sp.text, ext, conv, expected, &sp.meta_order) {
        Err(p) => {
            // "parses without errors to exactly that recipe": a panic on a documented spelling is this property's business too
            ctx.violation(&case, "reference_model", &format!("panic|{}", crate::core::strip_digits(&p.message).chars().take(60).collect::<String>()), format!("the parser panics on this spelling: {} at {}", p.message, p.location));
        }
        Ok(o) if o.ok => {
            ctx.nontrivial(&case);
            for c in &sp.constructs {
                ctx.count(&format!("construct:{c}"));
            }
            for f in feat::names(sp.used) {
                ctx.count(&format!("spelling:{f}"));
            }
            ctx.count(if spec.extended { "passed_extended" } else { "passed_canonical" });
            if ctx.evals % 3000 == 1 {
                ctx.sample(json!({"spelling": sp.text, "extended": spec.extended, "features": feat::names(sp.used), "components": expected["ingredients"].as_array().map(|a| a.len()).unwrap_or(0)}));
            }
        }
        Ok(o) => {
            // narrow the failure to a minimal set of speller feature classes
            let mut mask = sp.used;
            for (_, bit) in feat::NAMES {
                if mask & bit == 0 {
                    continue;
                }
                let trial = g::spell(spec, spell_seed, mask & !bit, level);
                if let Some(e) = &trial.expected {
                    if let Ok(t) = judge(ps, &trial.text, ext, conv, e, &trial.meta_order) {
                        if !t.ok && t.cause == o.cause {
                            mask &= !bit;
                        }
                    }
                }
            }
            let min = g::spell(spec, spell_seed, mask, level);
            let (text, exp, order, msg) = match (&min.expected, judge(ps, &min.text, ext, conv, min.expected.as_ref().unwrap_or(expected), &min.meta_order)) {
                (Some(e), Ok(t)) if !t.ok => (min.text.clone(), e.clone(), min.meta_order.clone(), t.message),
                _ => (sp.text.clone(), expected.clone(), sp.meta_order.clone(), o.message.clone()),
            };
            let feats = feat::names(mask).join("+");
            let cause = format!("{}|{}", o.cause, if feats.is_empty() { "plain" } else { &feats });
            let case = Case::new("g1", text, ext, conv).with(json!({"expected": exp, "meta_order": order, "features": feat::names(mask), "spec_id": spec_id, "spell_seed": spell_seed, "level": level}));
            ctx.violation(&case, "reference_model", &cause, msg);
        }
    }
}

pub fn run(ctx: &mut Ctx) {
    let mut ps = Parsers::new();
    let n = ctx.budget(12_000, 2_000_000);
    for i in 0..n {
        let extended = i % 2 == 1;
        let opts = if extended { GenOpts::extended() } else { GenOpts::canonical() };
        let spec_seed = ctx.rng.next();
        let mut r = Rng::new(spec_seed);
        let spec = g::gen_spec(&mut r, &opts);
        ctx.count("specs");
        for (k, level) in [1u32, 2, 3].iter().enumerate() {
            let seed = spec_seed ^ (0x9E37 * (k as u64 + 1));
            check_spelling(ctx, &mut ps, &spec, seed, *level, spec_seed);
        }
        // the plain spelling as well, once in a while
        if i % 8 == 0 {
            check_spelling(ctx, &mut ps, &spec, spec_seed, 0, spec_seed);
        }
        // once in a while below a single comment line longer than 64 KiB (a comment-only line means nothing; what follows
        // it still has to be read at its own place)
        if i % 64 == 5 && spec.front.is_none() {
            let sp = g::spell(&spec, spec_seed, feat::ALL & !feat::LEADING_BLANK, 1);
            if let Some(exp) = &sp.expected {
                let text = format!("-- {}\n{}", "lorem ipsum dolor ".repeat(3_700), sp.text);
                let (ext, conv) = if extended { (cooklang::Extensions::all().bits(), "bundled") } else { (0, "empty") };
                let case = Case::new("g1", text.as_str(), ext, conv).with(json!({"long_leading_comment": true}));
                ctx.begin(&case);
                let parser = ps.parser(ext, conv).clone();
                match crate::core::guarded(|| parser.parse(&text)) {
                    Err(p) => ctx.panic_violation(&case, "parse", p),
                    Ok(r) => {
                        let errs: Vec<String> = r.report().errors().map(|e| e.message.to_string()).collect();
                        let img = r.output().map(|o| serde_json::to_value(o).unwrap_or(serde_json::Value::Null));
                        let mut path = String::new();
                        match img {
                            Some(img) if errs.is_empty() => match g::json_diff(exp, &img, &mut path) {
                                None => ctx.count("recipes_below_a_64k_comment_ok"),
                                Some((p, a, b)) => ctx.violation(&case, "reference_model", &format!("{}|below_64k_comment", g::path_class(&p)), format!("at {p}: expected {a} but parsed {b}")),
                            },
                            _ => ctx.violation(&case, "reference_model", "unexpected_error|below_64k_comment", format!("errors: {errs:?}")),
                        }
                    }
                }
            }
        }
    }
}

pub fn replay(ctx: &mut Ctx, case: &Case) {
    let mut ps = Parsers::new();
    ctx.begin(case);
    let expected = &case.params["expected"];
    let order: Vec<String> = case.params["meta_order"].as_array().map(|a| a.iter().filter_map(|x| x.as_str().map(String::from)).collect()).unwrap_or_default();
    match judge(&mut ps, &case.input, case.ext, &case.conv, expected, &order) {
        Ok(o) if !o.ok => {
            let feats = case.params["features"].as_array().map(|a| a.iter().filter_map(|x| x.as_str()).collect::<Vec<_>>().join("+")).unwrap_or_default();
            let cause = format!("{}|{}", o.cause, if feats.is_empty() { "plain" } else { &feats });
            ctx.violation(case, "reference_model", &cause, o.message)
        }
        Ok(_) => {}
        Err(p) => ctx.panic_violation(case, "parse", p),
    }
}
