//! C07 — diagnostics are sound, complete and placed on the offending construct.

use crate::core::{all_extension_subsets, Case, Ctx, Parsers, Rng};
use crate::gen::alphabet::{self, ALPHABET, SEEDS};
use crate::gen::recipe::{self as g, feat, GenOpts};
use cooklang::error::{Severity, SourceDiag, Stage};
use cooklang::Extensions as E;
use serde_json::json;

/// (c) structural consistency of a result; checked on every parse of every workload
pub fn result_shape(r: &cooklang::RecipeResult) -> Option<(&'static str, String)> {
    let has_err = r.report().iter().any(|d| d.severity == Severity::Error);
    if r.is_valid() != (r.has_output() && !has_err) {
        return Some(("is_valid_inconsistent", format!("is_valid {} has_output {} errors {}", r.is_valid(), r.has_output(), has_err)));
    }
    let parse_err = r.report().iter().any(|d| d.severity == Severity::Error && d.stage == Stage::Parse);
    let analysis_any = r.report().iter().any(|d| d.stage == Stage::Analysis);
    if parse_err && r.has_output() {
        return Some(("parse_error_with_output", "a parse-stage error did not suppress the output".into()));
    }
    if parse_err && analysis_any {
        return Some(("parse_error_with_analysis_diagnostics", "analysis diagnostics next to a parse-stage error".into()));
    }
    if !parse_err && !r.has_output() {
        return Some(("no_output_without_parse_error", "output missing although no parse-stage error".into()));
    }
    None
}

fn is_deprecation_notice(d: &SourceDiag, input: &str, modes: bool) -> bool {
    // recognised structurally, not by wording: an analysis warning whose labels all sit on `>>` lines (with MODES on,
    // not on the bracketed configuration lines: those are no metadata there)
    d.severity == Severity::Warning
        && d.stage == Stage::Analysis
        && !d.labels.is_empty()
        && d.labels.iter().all(|(s, _)| {
            let ls = input[..s.start().min(input.len())].rfind('\n').map(|p| p + 1).unwrap_or(0);
            input[ls..].starts_with(">>") && !(modes && input[ls..].trim_start_matches(">>").trim_start().starts_with('['))
        })
}

/// the same structural rules on the metadata-only result (it is a PassResult too)
pub fn metadata_shape(r: &cooklang::MetadataResult) -> Option<(&'static str, String)> {
    let has_err = r.report().iter().any(|d| d.severity == Severity::Error);
    if r.is_valid() != (r.has_output() && !has_err) {
        return Some(("metadata_is_valid_inconsistent", format!("is_valid {} has_output {} errors {}", r.is_valid(), r.has_output(), has_err)));
    }
    let parse_err = r.report().iter().any(|d| d.severity == Severity::Error && d.stage == Stage::Parse);
    if parse_err && r.has_output() {
        return Some(("metadata_parse_error_with_output", "a parse-stage error did not suppress the metadata output".into()));
    }
    if !parse_err && !r.has_output() {
        return Some(("metadata_no_output_without_parse_error", format!("metadata output missing although no parse-stage error; report {:?}", r.report().iter().map(|d| format!("{:?}/{:?} {}", d.severity, d.stage, d.message)).collect::<Vec<_>>())));
    }
    None
}

/// (a) a clean recipe: no error, no warning except the deprecation notice
pub fn check_clean(ctx: &mut Ctx, ps: &mut Parsers, text: &str, ext: u32, conv: &str, what: &str) {
    let case = Case::new("clean", text, ext, conv);
    ctx.begin(&case);
    let parser = ps.parser(ext, conv).clone();
    let Ok(r) = crate::core::guarded(|| parser.parse(text)) else {
        ctx.count("panic_in_parse(C03)");
        return;
    };
    if let Some((c, m)) = result_shape(&r) {
        ctx.violation(&case, "result_shape", c, m);
        return;
    }
    if let Ok(mr) = crate::core::guarded(|| parser.parse_metadata(text)) {
        if let Some((c, m)) = metadata_shape(&mr) {
            ctx.violation(&case, "result_shape", c, m);
            return;
        }
        ctx.count("metadata_shape_ok");
    }
    let mut notices = 0;
    for d in r.report().iter() {
        if is_deprecation_notice(d, text, E::from_bits_retain(ext).contains(E::MODES)) {
            notices += 1;
            continue;
        }
        let sev = if d.severity == Severity::Error { "error" } else { "warning" };
        let class = crate::core::strip_digits(&d.message).split([':', '\'', '"']).next().unwrap_or("").trim().to_string();
        ctx.violation(&case, "clean", &format!("{sev}_on_well_formed_recipe|{class}"), format!("[{what}] {sev}: {} (labels {:?}, hints {:?})", d.message, d.labels, d.hints));
        return;
    }
    if notices > 1 {
        ctx.violation(&case, "clean", "deprecation_notice_repeated", format!("{notices} notices"));
        return;
    }
    ctx.nontrivial(&case);
    ctx.count(&format!("clean_ok:{what}"));
    if notices == 1 {
        ctx.count("deprecation_notices_seen");
    }
    if ctx.evals % 4000 == 1 {
        ctx.sample(json!({"clean_recipe": text, "config": what, "diagnostics": r.report().iter().count()}));
    }
}

#[derive(Clone, Copy)]
pub struct Entry {
    pub name: &'static str,
    /// `«…»` marks the offending part the first label has to touch
    pub template: &'static str,
    pub needs: E,
    pub severity: Severity,
    pub stage: Stage,
    /// needs its own block(s) (starts at a line start, ends at a block end)
    pub block: bool,
}

const fn e(name: &'static str, template: &'static str, needs: E, severity: Severity, stage: Stage, block: bool) -> Entry {
    Entry { name, template, needs, severity, stage, block }
}

const NONE: E = E::empty();
use Severity::{Error as Err_, Warning as Warn};
use Stage::{Analysis, Parse};

pub const CATALOGUE: &[Entry] = &[
    e("empty_ingredient_name", "«@{}»", NONE, Err_, Parse, false),
    e("empty_cookware_name", "«#{}»", NONE, Err_, Parse, false),
    // names, aliases, keys, values made only of white space that is not ASCII count as empty too
    e("blank_ingredient_name_nbsp", "«@\u{a0}{1%kg}»", NONE, Err_, Parse, false),
    e("blank_cookware_name_ideographic_space", "«#\u{3000}{}»", NONE, Err_, Parse, false),
    e("blank_alias_nbsp", "@zz9«|\u{a0}»{}", E::COMPONENT_ALIAS, Err_, Parse, false),
    e("blank_value_nbsp", "@zz9{«\u{a0}%g»}", NONE, Err_, Parse, false),
    e("blank_metadata_key_nbsp", ">>«\u{a0}»: v", NONE, Err_, Parse, true),
    e("empty_ingredient_name_with_alias", "«@|zz9{1%g}»", E::COMPONENT_ALIAS, Err_, Parse, false),
    e("empty_cookware_name_with_alias", "«#|zz9{}»", E::COMPONENT_ALIAS, Err_, Parse, false),
    e("zero_denominator", "@zz9{«1/0»%g}", NONE, Err_, Parse, false),
    e("zero_denominator_mixed", "@zz9{«2 1/0»}", NONE, Err_, Parse, false),
    e("zero_denominator_in_range_end", "@zz9{1-«3/0»%l}", E::RANGE_VALUES, Err_, Parse, false),
    e("zero_denominator_in_range_start", "@zz9{«1/0»-2}", E::RANGE_VALUES, Err_, Parse, false),
    e("zero_denominator_mixed_in_range", "#zz9{«1 1/0» - 2}", E::RANGE_VALUES, Err_, Parse, false),
    e("integer_too_big_in_range", "@zz9{1-«99999999999»/2}", E::RANGE_VALUES, Err_, Parse, false),
    e("zero_denominator_before_spaced_unit", "@zz9{«1/0» cup}", E::ADVANCED_UNITS, Err_, Parse, false),
    e("zero_denominator_mixed_before_spaced_unit", "@zz9{«1 1/0» l}", E::ADVANCED_UNITS, Err_, Parse, false),
    e("zero_denominator_timer_spaced_unit", "~{«1/0» min}", E::ADVANCED_UNITS, Err_, Parse, false),
    e("empty_value", "@zz9{«%g»}", NONE, Err_, Parse, false),
    e("blank_value_after_lock", "@zz9{«= %g»}", NONE, Err_, Parse, false),
    e("blank_value_after_lock_no_unit", "@zz9{«=  »}", NONE, Err_, Parse, false),
    e("blank_timer_value_after_lock", "~{«= %min»}", NONE, Err_, Parse, false),
    e("integer_too_big", "@zz9{«99999999999»/2}", NONE, Err_, Parse, false),
    e("unit_on_cookware", "#zz9{1«%kg»}", NONE, Err_, Parse, false),
    e("unit_on_cookware_after_space", "#zz9{1« kg»}", E::ADVANCED_UNITS, Err_, Parse, false),
    e("timer_without_unit", "~{«5»}", NONE, Err_, Parse, false),
    e("timer_with_empty_unit", "~{«5%»}", NONE, Err_, Parse, false),
    e("timer_with_blank_unit", "~zz9{«5% »}", NONE, Err_, Parse, false),
    e("timer_without_unit_named", "~zz9{«5»}", NONE, Err_, Parse, false),
    e("timer_without_duration_word", "«~zz9»", E::TIMER_REQUIRES_TIME, Err_, Parse, false),
    e("timer_without_duration_braces", "~zz9«{}»", E::TIMER_REQUIRES_TIME, Err_, Parse, false),
    e("timer_neither_name_nor_quantity", "«~{}»", NONE, Err_, Parse, false),
    e("duplicate_modifier", "@«&&»zz9{}", E::COMPONENT_MODIFIERS, Err_, Parse, false),
    e("duplicate_modifier_opt", "#«??»zz9{}", E::COMPONENT_MODIFIERS, Err_, Parse, false),
    e("recipe_modifier_on_cookware", "#«@»zz9{}", E::COMPONENT_MODIFIERS, Err_, Parse, false),
    e("recipe_modifier_on_cookware_not_first", "#?«@»zz9{}", E::COMPONENT_MODIFIERS, Err_, Parse, false),
    e("recipe_modifier_on_cookware_last_of_three", "#-?«@»zz9{1}", E::COMPONENT_MODIFIERS, Err_, Parse, false),
    e("modifiers_on_timer", "~«&»zz9{1%min}", E::COMPONENT_MODIFIERS, Err_, Parse, false),
    e("intermediate_on_cookware", "#&«(1)»zz9{}", E::INTERMEDIATE_PREPARATIONS, Err_, Parse, false),
    e("empty_alias", "@zz9«|»{}", E::COMPONENT_ALIAS, Err_, Parse, false),
    e("multiple_aliases", "@zz9«|b|c»{}", E::COMPONENT_ALIAS, Err_, Parse, false),
    e("alias_on_timer", "~zz9«|u»{1%min}", E::COMPONENT_ALIAS, Err_, Parse, false),
    e("intermediate_swapped", "@&(«~=»1)zz9{}", E::INTERMEDIATE_PREPARATIONS, Err_, Parse, false),
    e("intermediate_signed", "@&(«-»1)zz9{}", E::INTERMEDIATE_PREPARATIONS, Err_, Parse, false),
    e("intermediate_too_big", "@&(«99999999»)zz9{}", E::INTERMEDIATE_PREPARATIONS, Err_, Parse, false),
    e("intermediate_empty", "@&«()»zz9{}", E::INTERMEDIATE_PREPARATIONS, Err_, Parse, false),
    e("intermediate_not_a_number", "@&(«x»)zz9{}", E::INTERMEDIATE_PREPARATIONS, Err_, Parse, false),
    e("empty_metadata_key", ">>«»: v", NONE, Err_, Parse, true),
    e("dangling_reference", "«@&zz9{}»", E::COMPONENT_MODIFIERS, Err_, Analysis, false),
    e("dangling_cookware_reference", "«#&zz9{}»", E::COMPONENT_MODIFIERS, Err_, Analysis, false),
    // without the intermediate-preparations bit a parenthesised prefix is part of the name (see `forbidden`)
    e("dangling_reference_parenthesised_name", "«@&(1)zz9{}»", E::COMPONENT_MODIFIERS, Err_, Analysis, false),
    e("steps_mode_undefined_ingredient", ">> [mode]: steps\nuse «@zz9{}» now\n>> [mode]: all", E::MODES, Err_, Analysis, true),
    e("steps_mode_undefined_cookware", ">> [mode]: steps\nuse «#zz9{}» now\n>> [mode]: all", E::MODES, Err_, Analysis, true),
    e("duplicate_ref_mode_conflicting_new", ">> [duplicate]: ref\n@zz9{} and @«&+»zz9{}\n>> [duplicate]: new", E::MODES.union(E::COMPONENT_MODIFIERS), Err_, Analysis, true),
    e("new_and_ref", "@zz9{} @«&+»zz9{}", E::COMPONENT_MODIFIERS, Err_, Analysis, false),
    e("new_and_ref_with_optional", "@zz9{} @«&+?»zz9{}", E::COMPONENT_MODIFIERS, Err_, Analysis, false),
    e("new_and_ref_with_hidden_first", "@zz9{} @«-&+»zz9{}", E::COMPONENT_MODIFIERS, Err_, Analysis, false),
    e("new_and_ref_with_optional_cookware", "#zz9{} #«?+&»zz9{}", E::COMPONENT_MODIFIERS, Err_, Analysis, false),
    e("reference_with_foreign_modifier", "@zz9{} @«&-»zz9{}", E::COMPONENT_MODIFIERS, Err_, Analysis, false),
    e("note_on_reference", "@zz9{} @&zz9{}«(note)»", E::COMPONENT_MODIFIERS, Err_, Analysis, false),
    e("note_on_cookware_reference", "#zz9{} #&zz9«(note)»", E::COMPONENT_MODIFIERS, Err_, Analysis, false),
    e("quantity_on_reference_to_listed_definition", ">> [mode]: components\n@zz9{1}\n>> [mode]: all\n\nuse @&zz9«{2}»", E::MODES.union(E::COMPONENT_MODIFIERS), Err_, Analysis, true),
    e("intermediate_zero", "@&«(0)»zz9{}", E::INTERMEDIATE_PREPARATIONS, Err_, Analysis, false),
    e("intermediate_relative_zero", "@&«(~0)»zz9{}", E::INTERMEDIATE_PREPARATIONS, Err_, Analysis, false),
    e("intermediate_step_out_of_range", "@&«(999)»zz9{}", E::INTERMEDIATE_PREPARATIONS, Err_, Analysis, false),
    e("intermediate_relative_out_of_range", "@&«(~999)»zz9{}", E::INTERMEDIATE_PREPARATIONS, Err_, Analysis, false),
    e("intermediate_section_out_of_range", "@&«(=999)»zz9{}", E::INTERMEDIATE_PREPARATIONS, Err_, Analysis, false),
    // boundary: exactly one past the last step / section that exists before the reference (computed per placement)
    e("intermediate_step_one_past_last", "@&«(%STEPS+1%)»zz9{}", E::INTERMEDIATE_PREPARATIONS, Err_, Analysis, false),
    e("intermediate_relative_one_past_last", "@&«(~%STEPS+1%)»zz9{}", E::INTERMEDIATE_PREPARATIONS, Err_, Analysis, false),
    e("intermediate_section_one_past_last", "@&«(=%SECTIONS+1%)»zz9{}", E::INTERMEDIATE_PREPARATIONS, Err_, Analysis, false),
    e("intermediate_relative_section_one_past_last", "@&«(=~%SECTIONS+1%)»zz9{}", E::INTERMEDIATE_PREPARATIONS, Err_, Analysis, false),
    e("intermediate_with_new_modifier_before", "filler\n\n@«+&(~1)»zz9{}", E::INTERMEDIATE_PREPARATIONS, Err_, Analysis, true),
    e("intermediate_with_new_modifier_after", "filler\n\n@«&(~1)+»zz9{}", E::INTERMEDIATE_PREPARATIONS, Err_, Analysis, true),
    e("intermediate_with_recipe_modifier", "filler\n\n@«@&(~1)»zz9{}", E::INTERMEDIATE_PREPARATIONS, Err_, Analysis, true),
    e("intermediate_with_conflicting_modifier", "filler\n\n@«&(~1)-»zz9{}", E::INTERMEDIATE_PREPARATIONS, Err_, Analysis, true),
    e("bad_mode_value", ">> [mode]: «bogus»", E::MODES, Err_, Analysis, true),
    e("bad_mode_value_spaced_key", ">> [mode] : «bogus»", E::MODES, Err_, Analysis, true),
    e("bad_define_value", ">> [define]: «bogus»", E::MODES, Err_, Analysis, true),
    e("bad_duplicate_value", ">> [duplicate]: «bogus»", E::MODES, Err_, Analysis, true),
    e("timer_unit_not_time", "~{5%«kg»}", E::ADVANCED_UNITS, Err_, Analysis, false),
    e("timer_unit_unknown", "~{5%«foo»}", E::ADVANCED_UNITS, Err_, Analysis, false),
    e("timer_value_text", "~{«long»%min}", E::ADVANCED_UNITS, Err_, Analysis, false),
    e("timer_range_unit_not_time", "~{10-15%«g»}", E::ADVANCED_UNITS.union(E::RANGE_VALUES), Err_, Analysis, false),
    e("timer_range_unit_unknown", "~zz9{1 1/2-2%«foos»}", E::ADVANCED_UNITS.union(E::RANGE_VALUES), Err_, Analysis, false),
    e("timer_range_spaced_unit_not_time", "~zz9{2-3 «cups»}", E::ADVANCED_UNITS.union(E::RANGE_VALUES), Err_, Analysis, false),
    e("note_on_timer", "~zz9{1%min}«(note)»", NONE, Warn, Parse, false),
    e("empty_unit", "@zz9{1«%»}", NONE, Warn, Parse, false),
    e("empty_metadata_value", ">> zz9:«»", NONE, Warn, Parse, true),
    e("unknown_config_key", ">> «[foo]»: bar", E::MODES, Warn, Analysis, true),
    e("metadata_without_colon", "«>> novalue»", NONE, Warn, Parse, true),
    e("section_with_trailing_text", "= a =« b»", NONE, Warn, Parse, true),
    e("text_in_components_mode", ">> [mode]: components\n«words» @zz9{1}\n>> [mode]: all", E::MODES, Warn, Analysis, true),
    e("component_in_text_mode", ">> [mode]: text\nsome «@zz9{1}» here\n>> [mode]: all", E::MODES, Warn, Analysis, true),
    e("redundant_new_modifier", "@«+»zz9{}", E::COMPONENT_MODIFIERS, Warn, Analysis, false),
    e("text_and_number_between_references", "@zz9{«some»} @&zz9{2}", E::COMPONENT_MODIFIERS, Warn, Analysis, false),
    e("incompatible_units_between_references", "@zz9{1%kg} @&zz9{2%«l»}", E::COMPONENT_MODIFIERS.union(E::ADVANCED_UNITS), Warn, Analysis, false),
    e("unnecessary_lock_on_cookware", "#zz9{=«2»}", NONE, Warn, Analysis, false),
    e("unnecessary_lock_on_text", "@zz9{=«some»}", NONE, Warn, Analysis, false),
    e("invalid_single_word_name", "«@»%", NONE, Warn, Parse, false),
];

/// extension bits under which the entry's construct means something else (so the documented diagnostic is not due)
pub fn forbidden(entry: &Entry) -> E {
    if entry.name.starts_with("dangling_reference_parenthesised") {
        // the bit that only INTERMEDIATE_PREPARATIONS has (it also implies COMPONENT_MODIFIERS)
        E::INTERMEDIATE_PREPARATIONS.difference(E::COMPONENT_MODIFIERS)
    } else {
        E::empty()
    }
}

/// strip the markers; returns (text, lo, hi) with the marked byte range
pub fn unmark(t: &str) -> (String, usize, usize) {
    let a = t.find('«').expect("marker");
    let b = t.find('»').expect("marker");
    let mut s = String::new();
    s.push_str(&t[..a]);
    let lo = s.len();
    s.push_str(&t[a + '«'.len_utf8()..b]);
    let hi = s.len();
    s.push_str(&t[b + '»'.len_utf8()..]);
    (s, lo, hi)
}

/// positions where a construct can be placed in a host recipe
fn placements(host: &str) -> (Vec<usize>, Vec<usize>) {
    // block positions: start, end, and after every blank line
    let mut blocks = vec![0, host.len()];
    let mut off = 0;
    for l in host.split_inclusive('\n') {
        if l.trim().is_empty() && off > 0 {
            blocks.push(off + l.len());
        }
        off += l.len();
    }
    blocks.sort_unstable();
    blocks.dedup();
    // inline positions: a blank between two letters inside a plain text fragment of a step
    // (the event stream of the clean host tells where step text is)
    let mut inline = Vec::new();
    let mut in_step = false;
    for ev in cooklang::parser::PullParser::new(host, E::empty()) {
        match ev {
            cooklang::parser::Event::Start(cooklang::parser::BlockKind::Step) => in_step = true,
            cooklang::parser::Event::End(_) => in_step = false,
            cooklang::parser::Event::Text(t) if in_step => {
                for f in t.fragments() {
                    let (st, txt) = (f.start(), f.text());
                    let b = txt.as_bytes();
                    for i in 1..b.len().saturating_sub(1) {
                        if b[i] == b' ' && b[i - 1].is_ascii_alphabetic() && b[i + 1].is_ascii_alphabetic() {
                            inline.push(st + i + 1);
                        }
                    }
                }
            }
            _ => {}
        }
    }
    (blocks, inline)
}

/// number of steps of the current section and of completed sections that exist before `pos` in the (clean,
/// mode-free) host; the host prefix is parsed with the library itself, only its section/step structure is used
pub fn counts_before(host: &str, pos: usize, inline: bool) -> (usize, usize) {
    // a probe step is appended so that the LAST section of the parse is certainly the current one (a trailing
    // empty `=` header would otherwise be dropped); for an inline placement the cut-short step is the probe
    let prefix = if inline { host[..pos].to_string() } else { format!("{}\n\nzzprobe\n", &host[..pos]) };
    let parser = cooklang::CooklangParser::new(E::empty(), cooklang::Converter::empty());
    let Some(r) = parser.parse(&prefix).into_output() else { return (0, 0) };
    let steps = r.sections.last().map(|s| s.content.iter().filter(|c| matches!(c, cooklang::Content::Step(_))).count()).unwrap_or(0);
    (steps.saturating_sub(1), r.sections.len().saturating_sub(1))
}

fn expand(template: &str, host: &str, pos: usize, inline: bool, delta: usize) -> String {
    if !template.contains('%') || !(template.contains("%STEPS+1%") || template.contains("%SECTIONS+1%")) {
        return template.to_string();
    }
    let (st, se) = counts_before(host, pos, inline);
    template.replace("%STEPS+1%", &(st + delta).to_string()).replace("%SECTIONS+1%", &(se + delta).to_string())
}

pub fn inject(host: &str, entry: &Entry, pos: usize, inline: bool) -> (String, usize, usize) {
    inject_delta(host, entry, pos, inline, 1)
}

/// `delta` = 1: one past the last (must be diagnosed); `delta` = 0: the last existing one (must be clean)
pub fn inject_delta(host: &str, entry: &Entry, pos: usize, inline: bool, delta: usize) -> (String, usize, usize) {
    let t = expand(entry.template, host, pos, inline, delta);
    let (c, lo, hi) = unmark(&t);
    let (pre, post) = if inline {
        ("", " ")
    } else {
        (if pos == 0 { "" } else { "\n" }, "\n\n")
    };
    let mut s = String::with_capacity(host.len() + c.len() + 4);
    s.push_str(&host[..pos]);
    s.push_str(pre);
    let base = s.len();
    s.push_str(&c);
    s.push_str(post);
    s.push_str(&host[pos..]);
    (s, base + lo, base + hi)
}

pub fn check_injection(ctx: &mut Ctx, ps: &mut Parsers, entry: &Entry, text: &str, lo: usize, hi: usize, ext: u32, placement: &str) {
    check_injection_with(ctx, ps, entry, text, lo, hi, ext, placement, "bundled")
}

#[allow(clippy::too_many_arguments)]
pub fn check_injection_with(ctx: &mut Ctx, ps: &mut Parsers, entry: &Entry, text: &str, lo: usize, hi: usize, ext: u32, placement: &str, conv: &str) {
    let case = Case::new("injected", text, ext, conv).with(json!({"entry": entry.name, "range": [lo, hi], "placement": placement}));
    ctx.begin(&case);
    let parser = ps.parser(ext, conv).clone();
    let r = match crate::core::guarded(|| parser.parse(text)) {
        Ok(r) => r,
        Err(p) => {
            // the construct has to produce a diagnostic; a panic produces none
            ctx.violation(&case, "catalogue", &format!("{}|panic", entry.name), format!("parsing panics instead of reporting: {} at {}", p.message, p.location));
            return;
        }
    };
    if let Some((c, m)) = result_shape(&r) {
        ctx.violation(&case, "result_shape", c, m);
        return;
    }
    if let Ok(mr) = crate::core::guarded(|| parser.parse_metadata(text)) {
        if let Some((c, m)) = metadata_shape(&mr) {
            ctx.violation(&case, "result_shape", c, m);
            return;
        }
        ctx.count("metadata_shape_ok");
    }
    let touches = |d: &SourceDiag| d.labels.first().map(|(s, _)| s.start() <= hi && s.end() >= lo).unwrap_or(false);
    let matching: Vec<&SourceDiag> = r.report().iter().filter(|d| d.severity == entry.severity && d.stage == entry.stage).collect();
    let sev = if entry.severity == Severity::Error { "error" } else { "warning" };
    if matching.is_empty() {
        let others: Vec<String> = r.report().iter().map(|d| format!("{:?}/{:?} {}", d.severity, d.stage, d.message)).collect();
        ctx.violation(&case, "catalogue", &format!("{}|no_{sev}_of_documented_stage", entry.name), format!("{:?} at {lo}..{hi} ({placement}): expected a {:?}-stage {sev}; report has {others:?}", &text[lo..hi], entry.stage));
        return;
    }
    if !matching.iter().any(|d| touches(d)) {
        let labels: Vec<String> = matching.iter().map(|d| format!("{} first label {:?}", d.message, d.labels.first().map(|l| l.0))).collect();
        // malformed front matter may have no label at all; every other entry needs one
        ctx.violation(&case, "catalogue", &format!("{}|label_not_on_construct", entry.name), format!("construct {:?} at {lo}..{hi} ({placement}); {labels:?}", &text[lo..hi]));
        return;
    }
    if entry.severity == Severity::Error {
        if entry.stage == Stage::Parse && r.has_output() {
            ctx.violation(&case, "catalogue", &format!("{}|parse_error_kept_output", entry.name), String::new());
            return;
        }
        if entry.stage == Stage::Analysis && !r.has_output() {
            ctx.violation(&case, "catalogue", &format!("{}|analysis_error_lost_output", entry.name), String::new());
            return;
        }
        if r.is_valid() {
            ctx.violation(&case, "catalogue", &format!("{}|valid_despite_error", entry.name), String::new());
            return;
        }
    } else if !r.is_valid() {
        let errs: Vec<String> = r.report().errors().map(|d| d.message.to_string()).collect();
        ctx.violation(&case, "catalogue", &format!("{}|warning_entry_made_recipe_invalid", entry.name), format!("{errs:?}"));
        return;
    }
    let d = matching.iter().find(|d| touches(d)).unwrap();
    let l = d.labels[0].0;
    let dist = if l.end() < lo { lo - l.end() } else if l.start() > hi { l.start() - hi } else { 0 };
    ctx.count(&format!("entry_ok:{}", entry.name));
    ctx.count(&format!("label_distance:{dist}"));
    ctx.nontrivial(&case);
    if ctx.evals % 3000 == 1 {
        ctx.sample(json!({"entry": entry.name, "input": text, "construct": &text[lo..hi], "message": d.message, "first_label": [l.start(), l.end()]}));
    }
}

fn front_matter_family(ctx: &mut Ctx, ps: &mut Parsers, host: &str) {
    // malformed front matter: an analysis error that keeps the output; the label (when present) lies in the front matter
    for y in [": [", "- a\n- b", "a: 'unterminated", "a: b: c: [", "{", "a: [1, 2", "title: Pancakes\n...\nservings: 4", "a: *nope", "a: b\n...\n- c", "just a scalar", "42", "a: 1\na: 2"] {
        let text = format!("---\n{y}\n---\n{host}");
        let fm_end = 4 + y.len() + 1;
        for ext in [E::empty().bits(), E::all().bits()] {
            let case = Case::new("front_matter", text.as_str(), ext, "bundled").with(json!({"entry": "malformed_front_matter"}));
            ctx.begin(&case);
            let parser = ps.parser(ext, "bundled").clone();
            let Ok(r) = crate::core::guarded(|| parser.parse(&text)) else { continue };
            if let Some((c, m)) = result_shape(&r) {
                ctx.violation(&case, "result_shape", c, m);
                continue;
            }
            if let Ok(mr) = crate::core::guarded(|| parser.parse_metadata(&text)) {
                if let Some((c, m)) = metadata_shape(&mr) {
                    ctx.violation(&case, "result_shape", c, m);
                    continue;
                }
                ctx.count("metadata_shape_ok_with_analysis_error");
            }
            let errs: Vec<&SourceDiag> = r.report().iter().filter(|d| d.severity == Severity::Error && d.stage == Stage::Analysis).collect();
            if errs.is_empty() {
                ctx.violation(&case, "catalogue", "malformed_front_matter|no_error_of_documented_stage", format!("front matter {y:?}: {:?}", r.report().iter().map(|d| d.message.to_string()).collect::<Vec<_>>()));
            } else if errs.iter().all(|d| d.labels.first().is_some_and(|(s, _)| s.start() > fm_end + 4 || s.end() < 3)) {
                ctx.violation(&case, "catalogue", "malformed_front_matter|label_not_on_construct", format!("{:?}", errs[0].labels));
            } else if !r.has_output() {
                ctx.violation(&case, "catalogue", "malformed_front_matter|analysis_error_lost_output", String::new());
            } else {
                ctx.count("entry_ok:malformed_front_matter");
                ctx.nontrivial(&case);
            }
        }
    }
}

pub fn run(ctx: &mut Ctx) {
    let mut ps = Parsers::new();
    let subsets = all_extension_subsets();
    // (a) clean recipes
    let n = ctx.budget(8_000, 1_500_000);
    for i in 0..n {
        let seed = ctx.rng.next();
        let mut r = Rng::new(seed);
        let level = (i % 3 + 1) as u32;
        match i % 3 {
            0 => {
                let spec = g::gen_spec(&mut r, &GenOpts { text_mode_components: false, refused_std_values: false, ..GenOpts::extended() });
                let sp = g::spell(&spec, seed, feat::ALL, level);
                if sp.expected.is_some() {
                    check_clean(ctx, &mut ps, &sp.text, E::all().bits(), "bundled", "extended/all");
                }
            }
            1 => {
                let spec = g::gen_spec(&mut r, &GenOpts { refused_std_values: false, ..GenOpts::canonical() });
                let sp = g::spell(&spec, seed, feat::ALL, level);
                check_clean(ctx, &mut ps, &sp.text, 0, "empty", "canonical/none");
            }
            _ => {
                // core recipes are well formed under every subset
                let spec = g::gen_spec(&mut r, &GenOpts { refused_std_values: false, ..GenOpts::core() });
                let sp = g::spell(&spec, seed, feat::ALL, level);
                check_clean(ctx, &mut ps, &sp.text, E::COMPAT.bits(), "bundled", "core/compat");
                let e = subsets[ctx.rng.below(subsets.len())].bits();
                check_clean(ctx, &mut ps, &sp.text, e, "bundled", "core/random_subset");
            }
        }
    }
    // (a'') well-formed recipes written by hand with spellings the generator does not produce: braces that hold only a
    // comment (no quantity), escaped separators inside names, aliases, notes, units and values
    if ctx.shard == 0 {
        for t in [
            "Add @sea salt{[- to taste -]} and stir.\n", "Use the #big pan{ [- the red one -] } and @oil{[- c -]}.\n", "Wait ~{5%min}, then @water{1[- about -]%l}.\n",
            "Add the @type 00 flour|plain\\|all-purpose{500%g}.\n", "Use #pan\\|pot|the pan{} and @salt \\| pepper{}.\n", "Add @a\\{b\\}{1%k\\|g}(a \\(note\\)).\n",
            "Mix @flour{2\\%%g} and @x{1%\\%}.\n", "Add @butter{1/2%cup}(soft\\) and @milk{}.\n",
        ] {
            for ext in [E::all().bits(), E::empty().bits(), E::COMPAT.bits(), E::COMPONENT_ALIAS.bits()] {
                check_clean(ctx, &mut ps, t, ext, "bundled", "handwritten");
            }
        }
    }
    // (a3) the same invalid construct twice in one recipe: each occurrence gets its own diagnostic, on itself
    if ctx.shard == 0 {
        for (text, sev, stage) in [
            ("Warm @milk{«1/0»%l} in a #pot.\n\nFold in @flour{«3/0»%g} and rest ~{10%min}.\n", Severity::Error, Stage::Parse),
            ("Use #pan{1«%large»} then #bowl{2«%small»}.\n", Severity::Error, Stage::Parse),
            ("@onion{} @garlic{}\n\nAdd @&onion{}«(diced)» and @&garlic{}«(crushed)».\n", Severity::Error, Stage::Analysis),
            ("Add «@&aa9{}» and «@&bb9{}» now.\n", Severity::Error, Stage::Analysis),
            ("Add @a{1«%»} and @b{2«%»}.\n", Severity::Warning, Stage::Parse),
            ("~x{1%min}«(n)» and ~y{2%min}«(m)»\n", Severity::Warning, Stage::Parse),
            (">> [mode]: «bogus»\n\nstep\n\n>> [mode]: «wrong»\n", Severity::Error, Stage::Analysis),
        ] {
            // strip the two marker pairs
            let mut clean = String::new();
            let mut ranges: Vec<(usize, usize)> = Vec::new();
            let mut open = 0;
            for c in text.chars() {
                match c {
                    '«' => open = clean.len(),
                    '»' => ranges.push((open, clean.len())),
                    _ => clean.push(c),
                }
            }
            for ext in [E::all().bits(), (E::all() ^ E::INLINE_QUANTITIES).bits()] {
                let case = Case::new("repeated", clean.as_str(), ext, "bundled").with(json!({"ranges": ranges}));
                ctx.begin(&case);
                let parser = ps.parser(ext, "bundled").clone();
                let Ok(r) = crate::core::guarded(|| parser.parse(&clean)) else {
                    ctx.count("panic_in_parse(C03)");
                    continue;
                };
                let matching: Vec<&SourceDiag> = r.report().iter().filter(|d| d.severity == sev && d.stage == stage).collect();
                let untouched: Vec<&(usize, usize)> = ranges.iter().filter(|(lo, hi)| !matching.iter().any(|d| d.labels.first().map(|(sp, _)| sp.start() <= *hi && sp.end() >= *lo).unwrap_or(false))).collect();
                if !untouched.is_empty() {
                    ctx.violation(&case, "catalogue", "repeated_construct|occurrence_without_its_own_diagnostic", format!("constructs at {untouched:?} have no {sev:?}/{stage:?} diagnostic whose first label touches them; report: {:?}", r.report().iter().map(|d| format!("{} {:?}", d.message, d.labels.first().map(|l| l.0))).collect::<Vec<_>>()));
                } else {
                    ctx.count("repeated_constructs_each_reported");
                    ctx.nontrivial(&case);
                }
            }
        }
    }
    // (a') prose that only looks like syntax: a stray marker followed by modifier characters, parentheses or operators
    // and then nothing that can be a component. No ERROR may be reported (a warning about the stray marker is fine).
    if ctx.shard == 0 {
        for t in [
            "Is it done@?? Keep stirring.\n", "Mail me@&(home) for details.\n", "x@&& y and a#++ b and c~-- d", "Serve @ room temperature.\n", "50% @+ 20# -?", "a @&(1) b", "a @&(~) b #&( c",
            "@?", "#&", "@&(", "@+-?&@ x", "ok@&&\n\nnext @salt{1%g}", "= title @?? =\n\nstep", "> note@&& here\n\nstep @a{}",
        ] {
            for ext in [E::all().bits(), E::COMPONENT_MODIFIERS.bits(), E::empty().bits(), E::COMPAT.bits()] {
                let case = Case::new("stray", t, ext, "bundled");
                ctx.begin(&case);
                let parser = ps.parser(ext, "bundled").clone();
                match crate::core::guarded(|| parser.parse(t)) {
                    Err(p) => ctx.violation(&case, "clean", "stray_marker|panic", format!("{} at {}", p.message, p.location)),
                    Ok(r) => {
                        if let Some((c, m)) = result_shape(&r) {
                            ctx.violation(&case, "result_shape", c, m);
                        } else if r.report().has_errors() {
                            ctx.violation(&case, "clean", "stray_marker|error_on_plain_prose", format!("{:?}", r.report().errors().map(|e| e.message.to_string()).collect::<Vec<_>>()));
                        } else {
                            ctx.count("clean_ok:stray_markers_in_prose");
                        }
                    }
                }
            }
        }
    }
    // (b) catalogue x hosts x placements
    let hosts = ctx.budget(160, 40_000);
    for h in 0..hosts {
        let seed = ctx.rng.next();
        let mut r = Rng::new(seed);
        let mut spec = g::gen_spec(&mut r, &GenOpts { refused_std_values: false, ..GenOpts::core() });
        spec.front = None;
        let host = g::spell(&spec, seed, feat::ALL & !feat::CRLF & !feat::NO_FINAL_NEWLINE, 1).text;
        let (blocks, inline) = placements(&host);
        if h % 16 == 0 {
            front_matter_family(ctx, &mut ps, &host);
        }
        for entry in CATALOGUE {
            // the sets that enable the check: exactly what it needs, everything, and a random superset
            let mut exts = vec![entry.needs.bits(), E::all().bits()];
            let extra = subsets[ctx.rng.below(subsets.len())];
            exts.push((extra | entry.needs).bits());
            // entries about a missing duration only exist without TIMER_REQUIRES_TIME and vice versa
            for ext in exts {
                let ext = ext & !forbidden(entry).bits();
                let ee = E::from_bits_retain(ext);
                if entry.name == "timer_neither_name_nor_quantity" && ee.contains(E::TIMER_REQUIRES_TIME) {
                    continue;
                }
                if entry.name.starts_with("invalid_single_word") && ee.contains(E::COMPONENT_MODIFIERS) {
                    continue;
                }
                if entry.name.starts_with("timer_without_unit") && ee.contains(E::ADVANCED_UNITS) {
                    // `{5}` stays a missing-unit parse error there too
                }
                let (pos, is_inline) = if !entry.block && !inline.is_empty() && ctx.rng.coin() { (inline[ctx.rng.below(inline.len())], true) } else { (blocks[ctx.rng.below(blocks.len())], false) };
                let (text, lo, hi) = inject(&host, entry, pos, is_inline);
                let placement = if is_inline { "inline" } else if pos == 0 { "first_block" } else if pos == host.len() { "last_block" } else { "between_blocks" };
                check_injection(ctx, &mut ps, entry, &text, lo, hi, ext, placement);
                // a converter without units knows no time unit either: the timer-unit entries hold there as well
                if matches!(entry.name, "timer_unit_not_time" | "timer_unit_unknown" | "timer_value_text" | "timer_range_unit_not_time" | "timer_range_unit_unknown" | "timer_range_spaced_unit_not_time") {
                    check_injection_with(ctx, &mut ps, entry, &text, lo, hi, ext, placement, "empty");
                    ctx.count("timer_entries_under_the_empty_converter");
                }
                if entry.name.ends_with("one_past_last") {
                    // the companion: the LAST existing step / section is a valid target, the recipe stays clean
                    let (st, se) = counts_before(&host, pos, is_inline);
                    let exists = if entry.name.contains("section") { se >= 1 } else { st >= 1 };
                    if exists {
                        let (ok_text, _, _) = inject_delta(&host, entry, pos, is_inline, 0);
                        check_clean(ctx, &mut ps, &ok_text, ext, "bundled", "intermediate_last_existing_target");
                    }
                }
            }
        }
    }
    // (c) result shape on fuzz inputs
    let n = ctx.budget(60_000, 6_000_000);
    for k in 0..n {
        let input = match k % 3 {
            0 => alphabet::random(ALPHABET, &mut ctx.rng, 3, 30),
            1 => alphabet::random_structured(ALPHABET, &mut ctx.rng, 25),
            _ => alphabet::mutate(SEEDS[ctx.rng.below(SEEDS.len())], ALPHABET, &mut ctx.rng),
        };
        let e = subsets[ctx.rng.below(subsets.len())].bits();
        let conv = if ctx.rng.coin() { "bundled" } else { "empty" };
        let case = Case::new("shape", input, e, conv);
        ctx.begin(&case);
        let parser = ps.parser(e, conv).clone();
        if let Ok(r) = crate::core::guarded(|| parser.parse(&case.input)) {
            match result_shape(&r) {
                Some((c, m)) => ctx.violation(&case, "result_shape", c, m),
                None => ctx.count(if r.is_valid() { "shape_ok_valid" } else if r.has_output() { "shape_ok_invalid_with_output" } else { "shape_ok_no_output" }),
            }
        }
        if let Ok(mr) = crate::core::guarded(|| parser.parse_metadata(&case.input)) {
            match metadata_shape(&mr) {
                Some((c, m)) => ctx.violation(&case, "result_shape", c, m),
                None => ctx.count("metadata_shape_ok"),
            }
        }
    }
}

pub fn replay(ctx: &mut Ctx, case: &Case) {
    let mut ps = Parsers::new();
    match case.kind.as_str() {
        "clean" => check_clean(ctx, &mut ps, &case.input, case.ext, &case.conv, "replay"),
        "injected" => {
            let name = case.params["entry"].as_str().unwrap_or("");
            if let Some(entry) = CATALOGUE.iter().find(|e| e.name == name) {
                let lo = case.params["range"][0].as_u64().unwrap_or(0) as usize;
                let hi = case.params["range"][1].as_u64().unwrap_or(0) as usize;
                check_injection_with(ctx, &mut ps, entry, &case.input, lo, hi, case.ext, case.params["placement"].as_str().unwrap_or("?"), &case.conv);
            }
        }
        _ => {
            ctx.begin(case);
            let parser = ps.parser(case.ext, &case.conv).clone();
            if let Ok(r) = crate::core::guarded(|| parser.parse(&case.input)) {
                if let Some((c, m)) = result_shape(&r) {
                    ctx.violation(case, "result_shape", c, m);
                }
            }
        }
    }
}
