use crate::core::{Case, Ctx};

pub mod c01;
pub mod c02;
pub mod c03;
pub mod c04;
pub mod c05;
pub mod c06;
pub mod c07;
pub mod c08;
pub mod c09;
pub mod c10;
pub mod c11;
pub mod c12;
pub mod c13;
pub mod c14;
pub mod c15;
pub mod c16;
pub mod c17;
pub mod c18;

pub fn c03_targeted_small() -> Vec<String> {
    c03::targeted().into_iter().filter(|s| s.len() < 200).collect()
}

macro_rules! dispatch {
    ($prop:expr, $ctx:expr, $f:ident $(, $arg:expr)?) => {
        match $prop {
            "C01" => c01::$f($ctx $(, $arg)?),
            "C02" => c02::$f($ctx $(, $arg)?),
            "C03" => c03::$f($ctx $(, $arg)?),
            "C04" => c04::$f($ctx $(, $arg)?),
            "C05" => c05::$f($ctx $(, $arg)?),
            "C06" => c06::$f($ctx $(, $arg)?),
            "C07" => c07::$f($ctx $(, $arg)?),
            "C08" => c08::$f($ctx $(, $arg)?),
            "C09" => c09::$f($ctx $(, $arg)?),
            "C10" => c10::$f($ctx $(, $arg)?),
            "C11" => c11::$f($ctx $(, $arg)?),
            "C12" => c12::$f($ctx $(, $arg)?),
            "C13" => c13::$f($ctx $(, $arg)?),
            "C14" => c14::$f($ctx $(, $arg)?),
            "C15" => c15::$f($ctx $(, $arg)?),
            "C16" => c16::$f($ctx $(, $arg)?),
            "C17" => c17::$f($ctx $(, $arg)?),
            "C18" => c18::$f($ctx $(, $arg)?),
            other => {
                eprintln!("unknown monitor {other}");
                std::process::exit(64)
            }
        }
    };
}

pub fn run(prop: &str, ctx: &mut Ctx) {
    dispatch!(prop, ctx, run)
}

pub fn replay(prop: &str, ctx: &mut Ctx, case: &Case) {
    dispatch!(prop, ctx, replay, case)
}
