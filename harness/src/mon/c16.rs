//! C16 — converters built from configuration layers are consistent or rejected.

use crate::core::{Case, Ctx, Rng};
use cooklang::convert::units_file::{BestUnits, Extend, ExtendUnitEntry, Fractions, FractionsConfigHelper, FractionsConfigWrapper, Precedence, QuantityGroup, SIPrefix, UnitEntry, Units, SI};
use cooklang::convert::{ConvertTo, ConvertUnit, ConvertValue, Converter, ConverterBuilder, PhysicalQuantity as PQ, System, UnitsFile};
use cooklang::quantity::Number;
use cooklang::{Quantity, Value};
use serde_json::json;
use std::collections::{BTreeMap, HashMap};
use std::sync::Arc;

const QS: [PQ; 5] = [PQ::Volume, PQ::Mass, PQ::Length, PQ::Temperature, PQ::Time];
const PREFIXES: [SIPrefix; 6] = [SIPrefix::Kilo, SIPrefix::Hecto, SIPrefix::Deca, SIPrefix::Deci, SIPrefix::Centi, SIPrefix::Milli];

// ------------------------------------------------------------------ model of layering

#[derive(Clone, Debug, PartialEq)]
struct MUnit {
    names: Vec<String>,
    symbols: Vec<String>,
    aliases: Vec<String>,
    ratio: f64,
    diff: f64,
    q: PQ,
    system: Option<System>,
    expand_si: bool,
    is_expanded: bool,
    expanded: Option<Vec<usize>>,
}

impl MUnit {
    fn keys(&self) -> impl Iterator<Item = &String> {
        self.names.iter().chain(&self.symbols).chain(&self.aliases)
    }
}

#[derive(Debug)]
struct Model {
    units: Vec<MUnit>,
    best: BTreeMap<usize, BestUnits>,
    /// the last layer that sets a default system decides; metric when none does (documented default)
    default_system: System,
}

fn join(target: &mut Vec<String>, src: Vec<String>, p: Precedence) {
    match p {
        Precedence::Before => {
            let mut s = src;
            s.append(target);
            *target = s;
        }
        Precedence::After => target.extend(src),
        Precedence::Override => *target = src,
    }
}

fn qi(q: PQ) -> usize {
    QS.iter().position(|x| *x == q).unwrap()
}

type PrefixMap = Option<Vec<Vec<String>>>; // indexed like PREFIXES

/// what the SI prefixes mean (not asked from the library)
fn own_factor(p: SIPrefix) -> f64 {
    match p {
        SIPrefix::Kilo => 1e3,
        SIPrefix::Hecto => 1e2,
        SIPrefix::Deca => 1e1,
        SIPrefix::Deci => 1e-1,
        SIPrefix::Centi => 1e-2,
        SIPrefix::Milli => 1e-3,
    }
}

fn prefix_map(m: &Option<enum_map::EnumMap<SIPrefix, Vec<String>>>) -> PrefixMap {
    m.as_ref().map(|em| PREFIXES.iter().map(|p| em[*p].clone()).collect())
}

fn join_prefix(a: PrefixMap, b: PrefixMap, p: Precedence) -> PrefixMap {
    match (a, b) {
        (None, None) => None,
        (None, Some(v)) | (Some(v), None) => Some(v),
        (Some(a), Some(b)) => Some(match p {
            Precedence::Before => a.into_iter().zip(b).map(|(a, mut b)| { b.extend(a); b }).collect(),
            Precedence::After => a.into_iter().zip(b).map(|(mut a, b)| { a.extend(b); a }).collect(),
            Precedence::Override => b,
        }),
    }
}

fn expand(u: &MUnit, names_p: &[Vec<String>], syms_p: &[Vec<String>]) -> Vec<MUnit> {
    PREFIXES
        .iter()
        .enumerate()
        .map(|(i, p)| MUnit {
            names: names_p[i].iter().flat_map(|p| u.names.iter().map(move |n| format!("{p}{n}"))).collect(),
            symbols: syms_p[i].iter().flat_map(|p| u.symbols.iter().map(move |n| format!("{p}{n}"))).collect(),
            aliases: vec![],
            ratio: u.ratio * own_factor(*p),
            diff: u.diff,
            q: u.q,
            system: u.system,
            expand_si: false,
            is_expanded: true,
            expanded: None,
        })
        .collect()
}

/// The converter the documentation promises for these layers, or the reason they must be rejected.
fn model(layers: &[UnitsFile]) -> Result<Model, String> {
    let mut units: Vec<MUnit> = Vec::new();
    let mut best: BTreeMap<usize, BestUnits> = BTreeMap::new();
    let mut extends: Vec<Extend> = Vec::new();
    let (mut np, mut sp): (PrefixMap, PrefixMap) = (None, None);
    let mut fraction_keys: Vec<String> = Vec::new();
    for f in layers {
        for g in &f.quantity {
            let mut add = |es: &Vec<UnitEntry>, system: Option<System>| {
                for e in es {
                    units.push(MUnit {
                        names: e.names.iter().map(|s| s.to_string()).collect(),
                        symbols: e.symbols.iter().map(|s| s.to_string()).collect(),
                        aliases: e.aliases.iter().map(|s| s.to_string()).collect(),
                        ratio: e.ratio,
                        diff: e.difference,
                        q: g.quantity,
                        system,
                        expand_si: e.expand_si,
                        is_expanded: false,
                        expanded: None,
                    });
                }
            };
            match &g.units {
                Some(Units::Unified(u)) => add(u, None),
                Some(Units::BySystem { metric, imperial, unspecified }) => {
                    add(metric, Some(System::Metric));
                    add(imperial, Some(System::Imperial));
                    add(unspecified, None);
                }
                None => {}
            }
            if let Some(b) = &g.best {
                let empty = match b {
                    BestUnits::Unified(v) => v.is_empty(),
                    BestUnits::BySystem { metric, imperial } => metric.is_empty() || imperial.is_empty(),
                };
                if empty {
                    return Err("empty best list".into());
                }
                best.insert(qi(g.quantity), b.clone());
            }
        }
        if let Some(e) = &f.extend {
            extends.push(e.clone());
        }
        if let Some(si) = &f.si {
            np = join_prefix(np, prefix_map(&si.prefixes), si.precedence);
            sp = join_prefix(sp, prefix_map(&si.symbol_prefixes), si.precedence);
        }
        if let Some(fr) = &f.fractions {
            fraction_keys.extend(fr.unit.keys().cloned());
        }
    }
    // uniqueness of the declared keys, in declaration order
    let mut index: HashMap<String, usize> = HashMap::new();
    let mut add_index = |index: &mut HashMap<String, usize>, u: &MUnit, id: usize| -> Result<(), String> {
        let mut n = 0;
        for k in u.keys() {
            if k.trim().is_empty() {
                return Err("empty key".into());
            }
            if index.insert(k.clone(), id).is_some() {
                return Err(format!("duplicate key {k}"));
            }
            n += 1;
        }
        if n == 0 {
            return Err("unit without keys".into());
        }
        Ok(())
    };
    for (id, u) in units.iter().enumerate() {
        add_index(&mut index, u, id)?;
    }
    // SI expansion
    let base_n = units.len();
    for id in 0..base_n {
        if units[id].expand_si {
            let (Some(n), Some(s)) = (&np, &sp) else { return Err("expand_si without SI prefixes".into()) };
            let new = expand(&units[id], n, s);
            let mut ids = Vec::new();
            for u in new {
                let nid = units.len();
                add_index(&mut index, &u, nid)?;
                units.push(u);
                ids.push(nid);
            }
            units[id].expanded = Some(ids);
        }
    }
    // extend groups
    for ext in extends {
        let mut todo: Vec<(usize, ExtendUnitEntry)> = Vec::new();
        // HashMap iteration order is not defined: the outcome must not depend on it for valid input
        for (k, e) in &ext.units {
            let Some(id) = index.get(k).copied() else { return Err(format!("extend: unknown unit {k}")) };
            if todo.iter().any(|(i, _)| *i == id) {
                return Err("extend: two keys of the same unit".into());
            }
            if units[id].is_expanded && (e.ratio.is_some() || e.difference.is_some() || e.names.is_some() || e.symbols.is_some()) {
                return Err("extend: editing an expanded unit".into());
            }
            todo.push((id, e.clone()));
        }
        for (id, e) in todo {
            // remove old keys (unit and its expansions)
            let mut rm: Vec<usize> = vec![id];
            if let Some(x) = &units[id].expanded {
                rm.extend(x.iter().copied());
            }
            for r in &rm {
                for k in units[*r].keys().cloned().collect::<Vec<_>>() {
                    index.remove(&k);
                }
            }
            if let Some(r) = e.ratio {
                units[id].ratio = r;
            }
            if let Some(d) = e.difference {
                units[id].diff = d;
            }
            let tv = |v: &Option<Vec<Arc<str>>>| v.as_ref().map(|v| v.iter().map(|s| s.to_string()).collect::<Vec<_>>());
            if let Some(n) = tv(&e.names) {
                join(&mut units[id].names, n, ext.precedence);
            }
            if let Some(n) = tv(&e.symbols) {
                join(&mut units[id].symbols, n, ext.precedence);
            }
            if let Some(n) = tv(&e.aliases) {
                join(&mut units[id].aliases, n, ext.precedence);
            }
            if units[id].expand_si {
                let (Some(n), Some(s)) = (&np, &sp) else { return Err("expand_si without SI prefixes".into()) };
                let new = expand(&units[id], n, s);
                let ids = units[id].expanded.clone().unwrap();
                for (nu, xid) in new.into_iter().zip(ids) {
                    let old_aliases = units[xid].aliases.clone();
                    units[xid] = nu;
                    units[xid].aliases = old_aliases;
                    let u = units[xid].clone();
                    add_index(&mut index, &u, xid)?;
                }
            }
            let u = units[id].clone();
            add_index(&mut index, &u, id)?;
        }
    }
    // best lists: all five quantities, names resolvable and of the right quantity
    for (i, q) in QS.iter().enumerate() {
        let Some(b) = best.get(&i) else { return Err(format!("no best units for {q}")) };
        let lists: Vec<&Vec<String>> = match b {
            BestUnits::Unified(v) => vec![v],
            BestUnits::BySystem { metric, imperial } => vec![metric, imperial],
        };
        for l in lists {
            for n in l {
                let Some(id) = index.get(n) else { return Err(format!("best: unknown unit {n}")) };
                if units[*id].q != *q {
                    return Err(format!("best: {n} is not a unit of {q}"));
                }
            }
        }
    }
    for k in &fraction_keys {
        if !index.contains_key(k) {
            return Err(format!("fractions: unknown unit {k}"));
        }
    }
    let default_system = layers.iter().rev().find_map(|l| l.default_system).unwrap_or(System::Metric);
    Ok(Model { units, best, default_system })
}

// ------------------------------------------------------------------ generator

struct G<'a> {
    rng: &'a mut Rng,
    next: u32,
    /// keys declared so far: (key, quantity index, is_expanded_form)
    keys: Vec<(String, usize, bool)>,
    planted: Vec<&'static str>,
}

impl<'a> G<'a> {
    fn fresh(&mut self) -> String {
        self.next += 1;
        let n = self.next;
        match n % 4 {
            0 => format!("u{n}"),
            1 => format!("Unit {n}"),
            2 => format!("é{n}"),
            _ => format!("x{n}."),
        }
    }
    fn plant(&mut self, p: &'static str) {
        self.planted.push(p);
    }
    fn key_list(&mut self, min: usize, max: usize, q: usize) -> Vec<Arc<str>> {
        let n = self.rng.range(min, max);
        (0..n)
            .map(|_| {
                let k = if self.rng.chance(1, 160) && !self.keys.is_empty() {
                    self.plant("duplicate_key");
                    self.keys[self.rng.below(self.keys.len())].0.clone()
                } else if self.rng.chance(1, 500) {
                    self.plant("empty_key");
                    " ".to_string()
                } else if self.rng.chance(1, 40) && !self.keys.is_empty() {
                    // an existing key with a blank before or after it: a different key (keys are taken verbatim)
                    let base = self.keys[self.rng.below(self.keys.len())].0.trim().to_string();
                    let pad = *self.rng.pick(&[" ", "\u{a0}", "\u{3000}", "\t"]);
                    let k = if self.rng.coin() { format!("{base}{pad}") } else { format!("{pad}{base}") };
                    if base.is_empty() || self.keys.iter().any(|x| x.0 == k) {
                        self.fresh()
                    } else {
                        self.plant("padded_key");
                        k
                    }
                } else {
                    self.fresh()
                };
                self.keys.push((k.clone(), q, false));
                Arc::from(k.as_str())
            })
            .collect()
    }
    fn ratio(&mut self) -> f64 {
        *self.rng.pick(&[1.0, 0.5, 2.0, 10.0, 1000.0, 0.001, 60.0, 3600.0, 28.349523125, 0.0254, 1e-6, 1e9])
    }
    fn entry(&mut self, q: usize, allow_si: bool) -> UnitEntry {
        let names = self.key_list(0, 2, q);
        let mut symbols = self.key_list(if names.is_empty() { 1 } else { 0 }, 2, q);
        if names.is_empty() && symbols.is_empty() {
            symbols = self.key_list(1, 1, q);
        }
        if self.rng.chance(1, 400) {
            self.plant("unit_without_names_and_symbols");
            return UnitEntry { names: vec![], symbols: vec![], aliases: vec![], ratio: 1.0, difference: 0.0, expand_si: false };
        }
        let aliases = self.key_list(0, 1, q);
        let expand_si = allow_si && self.rng.chance(1, 4);
        let difference = if q == 3 && self.rng.coin() { *self.rng.pick(&[273.15, 459.67, 0.0]) } else { 0.0 };
        UnitEntry { names, symbols, aliases, ratio: self.ratio(), difference, expand_si }
    }
}

fn entry_keys(e: &UnitEntry) -> Vec<String> {
    e.names.iter().chain(&e.symbols).chain(&e.aliases).map(|s| s.to_string()).collect()
}

fn em<T>(f: impl FnMut(SIPrefix) -> T) -> enum_map::EnumMap<SIPrefix, T> {
    enum_map::EnumMap::from_fn(f)
}

fn gen_layers(rng: &mut Rng) -> (Vec<UnitsFile>, Vec<&'static str>) {
    let mut g = G { rng, next: 0, keys: vec![], planted: vec![] };
    let nl = g.rng.range(1, 3);
    let mut layers = Vec::new();
    // units known so far per quantity: (first key, system, expand_si)
    let mut known: Vec<Vec<(String, Option<System>, bool)>> = vec![vec![]; 5];
    let mut si_defined = false;
    for li in 0..nl {
        let mut f = UnitsFile { default_system: None, si: None, fractions: None, extend: None, quantity: vec![] };
        if g.rng.chance(1, 3) {
            f.default_system = Some(if g.rng.coin() { System::Metric } else { System::Imperial });
        }
        // SI config
        let want_si = li == 0 || g.rng.chance(1, 3);
        if want_si {
            let full = |short: bool| em(|p| {
                let (n, s) = match p {
                    SIPrefix::Kilo => ("kilo", "k"),
                    SIPrefix::Hecto => ("hecto", "h"),
                    SIPrefix::Deca => ("deca", "da"),
                    SIPrefix::Deci => ("deci", "d"),
                    SIPrefix::Centi => ("centi", "c"),
                    SIPrefix::Milli => ("milli", "m"),
                };
                vec![if short { s.to_string() } else { n.to_string() }]
            });
            let alt = |short: bool| em(|p| vec![format!("{}{}", if short { "S" } else { "Name" }, p.as_ref())]);
            let style = g.rng.below(12);
            let (prefixes, symbol_prefixes) = match style {
                0 => {
                    g.plant("si_partial");
                    (Some(full(false)), None)
                }
                1 => (Some(alt(false)), Some(alt(true))),
                3 => {
                    // several spellings per prefix: their order inside the joined list is observable (first name / symbol)
                    g.plant("si_two_spellings_per_prefix");
                    (Some(em(|p| vec![format!("X{}", p.as_ref()), format!("Y{}", p.as_ref())])), Some(em(|p| vec![format!("x{}", p.as_ref()), format!("y{}", p.as_ref()), format!("z{}", p.as_ref())])))
                }
                2 => {
                    g.plant("si_empty_lists");
                    (Some(em(|_| Vec::<String>::new())), Some(em(|_| Vec::<String>::new())))
                }
                _ => (Some(full(false)), Some(full(true))),
            };
            if prefixes.is_some() && symbol_prefixes.is_some() {
                si_defined = true;
            }
            f.si = Some(SI { prefixes, symbol_prefixes, precedence: *g.rng.pick(&[Precedence::Before, Precedence::After, Precedence::Override]) });
        }
        // quantity groups
        for (q, pq) in QS.iter().enumerate() {
            let define = li == 0 || g.rng.chance(1, 3);
            if !define {
                continue;
            }
            let by_system = g.rng.coin();
            let n = g.rng.range(1, 3);
            let mut metric = vec![];
            let mut imperial = vec![];
            let mut unspec = vec![];
            let mut new_units = vec![];
            for _ in 0..n {
                let allow_si = si_defined || g.rng.chance(1, 20);
                let e = g.entry(q, allow_si);
                if e.expand_si && !si_defined {
                    g.plant("expand_si_without_si");
                }
                let first = entry_keys(&e).first().cloned();
                let sys = if by_system { *g.rng.pick(&[Some(System::Metric), Some(System::Imperial), None]) } else { None };
                if let Some(k) = first {
                    new_units.push((k, sys, e.expand_si));
                }
                match sys {
                    Some(System::Metric) => metric.push(e),
                    Some(System::Imperial) => imperial.push(e),
                    None => unspec.push(e),
                }
            }
            known[q].extend(new_units);
            let units = if by_system { Units::BySystem { metric, imperial, unspecified: unspec } } else { Units::Unified(unspec) };
            // best list
            let best = if li == 0 || g.rng.chance(1, 2) {
                let pool: Vec<String> = known[q].iter().map(|k| k.0.clone()).collect();
                let mut pick = |g: &mut G, min: usize| -> Vec<String> {
                    if pool.is_empty() {
                        return vec!["no unit declared".to_string()];
                    }
                    let n = g.rng.range(min, pool.len().min(3).max(min));
                    let mut v: Vec<String> = (0..n).map(|_| pool[g.rng.below(pool.len())].clone()).collect();
                    v.dedup();
                    v
                };
                let fault = g.rng.below(70);
                let mut a = pick(&mut g, 1);
                let mut b = pick(&mut g, 1);
                match fault {
                    0 => {
                        g.plant("best_unknown_name");
                        a.push("no such unit".into());
                    }
                    1 | 2 => {
                        let oq = (q + 1 + g.rng.below(4)) % 5;
                        if let Some(k) = known[oq].first() {
                            g.plant("best_unit_of_other_quantity");
                            if fault == 1 {
                                a.push(k.0.clone())
                            } else {
                                a = vec![k.0.clone()]
                            }
                        }
                    }
                    3 => {
                        g.plant("best_empty");
                        a.clear();
                    }
                    _ => {}
                }
                if g.rng.coin() {
                    Some(BestUnits::Unified(a))
                } else {
                    if fault == 4 {
                        g.plant("best_one_system_empty");
                        b.clear();
                    }
                    Some(BestUnits::BySystem { metric: a, imperial: b })
                }
            } else {
                None
            };
            f.quantity.push(QuantityGroup { quantity: *pq, best, units: Some(units) });
        }
        // fractions
        if g.rng.chance(1, 2) {
            let helper = |g: &mut G| -> FractionsConfigWrapper {
                if g.rng.coin() {
                    FractionsConfigWrapper::Toggle(g.rng.coin())
                } else {
                    FractionsConfigWrapper::Custom(FractionsConfigHelper {
                        enabled: *g.rng.pick(&[None, Some(true), Some(false)]),
                        accuracy: *g.rng.pick(&[None, Some(0.05), Some(0.5), Some(-1.0), Some(5.0), Some(0.0)]),
                        max_denominator: *g.rng.pick(&[None, Some(0), Some(1), Some(4), Some(16), Some(200)]),
                        max_whole: *g.rng.pick(&[None, Some(0), Some(5), Some(u32::MAX)]),
                    })
                }
            };
            let mut fr = Fractions::default();
            if g.rng.coin() {
                fr.all = Some(helper(&mut g));
            }
            if g.rng.coin() {
                fr.metric = Some(helper(&mut g));
            }
            if g.rng.coin() {
                fr.imperial = Some(helper(&mut g));
            }
            if g.rng.coin() {
                let q = QS[g.rng.below(5)];
                let h = helper(&mut g);
                fr.quantity.insert(q, h);
            }
            if g.rng.coin() {
                let all: Vec<&(String, Option<System>, bool)> = known.iter().flatten().collect();
                let key = if g.rng.chance(1, 15) || all.is_empty() {
                    g.plant("fractions_unknown_unit");
                    "nope".to_string()
                } else {
                    all[g.rng.below(all.len())].0.clone()
                };
                let h = helper(&mut g);
                fr.unit.insert(key, h);
            }
            f.fractions = Some(fr);
        }
        // extend
        if (li > 0 && g.rng.chance(2, 3)) || g.rng.chance(1, 6) {
            let mut ext = Extend { precedence: *g.rng.pick(&[Precedence::Before, Precedence::After, Precedence::Override]), units: HashMap::new() };
            let n = g.rng.range(1, 2);
            for _ in 0..n {
                let all: Vec<(usize, String, bool)> = known.iter().enumerate().flat_map(|(q, v)| v.iter().map(move |k| (q, k.0.clone(), k.2))).collect();
                if all.is_empty() {
                    break;
                }
                let (q, key, is_si) = all[g.rng.below(all.len())].clone();
                let fault = g.rng.below(30);
                let key = match fault {
                    0 => {
                        g.plant("extend_unknown_key");
                        "missing unit".to_string()
                    }
                    1 if is_si && si_defined => {
                        g.plant("extend_expanded_unit");
                        format!("k{key}")
                    }
                    _ => key,
                };
                let mut e = ExtendUnitEntry::default();
                if g.rng.coin() {
                    e.names = Some(g.key_list(1, 2, q));
                }
                if g.rng.coin() {
                    e.symbols = Some(g.key_list(1, 2, q));
                }
                if g.rng.coin() {
                    e.aliases = Some(g.key_list(1, 2, q));
                }
                if g.rng.chance(1, 4) {
                    e.ratio = Some(g.ratio());
                }
                if g.rng.chance(1, 8) {
                    e.difference = Some(*g.rng.pick(&[1.5, 0.0, -0.0, 273.15]));
                }
                if fault == 1 && is_si && si_defined && g.rng.chance(1, 2) {
                    // editing a generated unit with an EMPTY list is still editing it
                    e.names = None;
                    e.ratio = None;
                    e.difference = None;
                    e.symbols = Some(vec![]);
                    g.plant("extend_expanded_unit_with_empty_list");
                }
                ext.units.insert(key, e);
            }
            f.extend = Some(ext);
        }
        layers.push(f);
    }
    (layers, g.planted)
}

// ------------------------------------------------------------------ checks on a built converter

fn walk(conv: &Converter, m: Option<&Model>) -> Vec<(String, String)> {
    let mut bad = Vec::new();
    let mut seen: HashMap<String, usize> = HashMap::new();
    let units: Vec<_> = conv.all_units().collect();
    for (i, u) in units.iter().enumerate() {
        for k in u.names.iter().chain(&u.symbols).chain(&u.aliases) {
            if let Some(j) = seen.insert(k.to_string(), i) {
                if j != i {
                    bad.push(("key_shared_by_two_units".into(), format!("{k:?} belongs to unit {j} and {i}")));
                }
            }
            match conv.find_unit(k) {
                None => bad.push(("declared_key_does_not_resolve".into(), format!("{k:?} of unit {i}"))),
                Some(f) => {
                    if *f != **u {
                        bad.push(("key_resolves_to_other_unit".into(), format!("{k:?} of unit {:?} resolves to {:?}", u.symbol(), f.symbol())));
                    }
                }
            }
        }
    }
    if let Some(m) = m {
        if conv.default_system() != m.default_system {
            bad.push(("default_system_differs_from_layers".into(), format!("the last layer that sets it says {:?}, the converter reports {:?}", m.default_system, conv.default_system())));
        }
    }
    for q in QS {
        for sys in [None, Some(System::Metric), Some(System::Imperial)] {
            let b = conv.best_units(q, sys);
            if b.is_empty() {
                bad.push(("best_list_empty".into(), format!("{q} {sys:?}")));
            }
            if sys.is_some() {
                for w in b.windows(2) {
                    if w[0].ratio > w[1].ratio {
                        bad.push(("best_list_not_sorted".into(), format!("{q} {sys:?}: {} ({}) before {} ({})", w[0].symbol(), w[0].ratio, w[1].symbol(), w[1].ratio)));
                    }
                }
            }
            for u in &b {
                if u.physical_quantity != q {
                    bad.push(("best_unit_of_other_quantity".into(), format!("{q} {sys:?} lists {} which is {}", u.symbol(), u.physical_quantity)));
                }
            }
        }
    }
    if let Some(m) = m {
        // every unit the model predicts exists with exactly its keys, in order; and nothing else
        let as_tuple = |names: Vec<String>, symbols: Vec<String>, aliases: Vec<String>, ratio: f64, diff: f64, q: PQ, s: Option<System>| format!("{names:?}|{symbols:?}|{aliases:?}|{ratio:e}|{diff:e}|{q}|{s:?}");
        let mut want: Vec<String> = m.units.iter().map(|u| as_tuple(u.names.clone(), u.symbols.clone(), u.aliases.clone(), u.ratio, u.diff, u.q, u.system)).collect();
        let mut got: Vec<String> = units.iter().map(|u| as_tuple(u.names.iter().map(|s| s.to_string()).collect(), u.symbols.iter().map(|s| s.to_string()).collect(), u.aliases.iter().map(|s| s.to_string()).collect(), u.ratio, u.difference, u.physical_quantity, u.system)).collect();
        want.sort();
        got.sort();
        if want != got {
            let missing: Vec<&String> = want.iter().filter(|w| !got.contains(w)).take(2).collect();
            let extra: Vec<&String> = got.iter().filter(|g| !want.contains(g)).take(2).collect();
            bad.push(("units_differ_from_layering_model".into(), format!("expected but absent: {missing:?}; present but unexpected: {extra:?}")));
        }
        for (i, q) in QS.iter().enumerate() {
            let lists: Vec<(Option<System>, &Vec<String>)> = match &m.best[&i] {
                BestUnits::Unified(v) => vec![(Some(System::Metric), v), (Some(System::Imperial), v)],
                BestUnits::BySystem { metric, imperial } => vec![(Some(System::Metric), metric), (Some(System::Imperial), imperial)],
            };
            for (sys, l) in lists {
                let mut want: Vec<String> = l.iter().filter_map(|k| conv.find_unit(k)).map(|u| u.symbol().to_string()).collect();
                let mut got: Vec<String> = conv.best_units(*q, sys).iter().map(|u| u.symbol().to_string()).collect();
                want.sort();
                got.sort();
                if want != got {
                    bad.push(("best_list_differs_from_last_layer".into(), format!("{q} {sys:?}: expected {want:?} got {got:?}")));
                }
            }
        }
    }
    bad
}

/// Fraction settings of the layers, as far as the documentation is unambiguous: the levels `all`, `metric`/`imperial`
/// and `quantity` are those of the LAST layer that sets them; a unit with exactly one per-unit entry gets that entry
/// with unset fields filled from quantity, then system, then all; a unit without an entry and with at most one level
/// set gets that level; unset fields take the documented defaults (off, 5 %, denominator 4, no whole limit) with the
/// documented clamps. Observed through Quantity::try_fraction on probe values, against Number::new_approx (C12).
/// what an entry of a fractions table says (own reading of the two documented shapes: `true`/`false`, or a table of fields)
fn helper_of(w: &FractionsConfigWrapper) -> FractionsConfigHelper {
    match w {
        FractionsConfigWrapper::Toggle(b) => FractionsConfigHelper { enabled: Some(*b), accuracy: None, max_denominator: None, max_whole: None },
        FractionsConfigWrapper::Custom(c) => *c,
    }
}

fn fractions_probe(conv: &Converter, layers: &[UnitsFile], judged: &mut u64, skipped: &mut u64) -> Vec<(String, String)> {
    let mut bad = Vec::new();
    let frs: Vec<&Fractions> = layers.iter().filter_map(|l| l.fractions.as_ref()).collect();
    let (mut all, mut metric, mut imperial) = (None, None, None);
    let mut quantity: HashMap<PQ, FractionsConfigHelper> = HashMap::new();
    for f in &frs {
        if let Some(c) = f.all {
            all = Some(helper_of(&c));
        }
        if let Some(c) = f.metric {
            metric = Some(helper_of(&c));
        }
        if let Some(c) = f.imperial {
            imperial = Some(helper_of(&c));
        }
        for (q, c) in &f.quantity {
            quantity.insert(*q, helper_of(c));
        }
    }
    let or = |a: FractionsConfigHelper, b: FractionsConfigHelper| FractionsConfigHelper {
        enabled: a.enabled.or(b.enabled),
        accuracy: a.accuracy.or(b.accuracy),
        max_denominator: a.max_denominator.or(b.max_denominator),
        max_whole: a.max_whole.or(b.max_whole),
    };
    for u in conv.all_units() {
        let entries: Vec<FractionsConfigHelper> = frs.iter().flat_map(|f| f.unit.iter()).filter(|(k, _)| conv.find_unit(k).is_some_and(|f| f.symbol() == u.symbol())).map(|(_, c)| helper_of(c)).collect();
        let levels: Vec<FractionsConfigHelper> = [
            quantity.get(&u.physical_quantity).copied(),
            match u.system {
                Some(System::Metric) => metric,
                Some(System::Imperial) => imperial,
                None => None,
            },
            all,
        ]
        .into_iter()
        .flatten()
        .collect();
        let eff = match (entries.len(), levels.len()) {
            (1, _) => levels.iter().fold(entries[0], |acc, l| or(acc, *l)),
            (0, 0) => FractionsConfigHelper::default(),
            // no entry of its own: the most specific level that exists is taken as a whole (quantity, else system, else all)
            (0, _) => levels[0],
            _ => {
                *skipped += 1;
                continue;
            }
        };
        let enabled = eff.enabled.unwrap_or(false);
        let acc = eff.accuracy.unwrap_or(0.05).clamp(0.0, 1.0);
        let den = eff.max_denominator.unwrap_or(4).clamp(1, 16);
        let whole = eff.max_whole.unwrap_or(u32::MAX);
        for v in [0.5, 1.5, 0.125, 0.3, 5.5, 7.25, 1.0 / 3.0, 0.0625, 100.5, 3.0] {
            let mut q = Quantity::new(Value::Number(Number::Regular(v)), Some(u.symbol().to_string()));
            let changed = q.try_fraction(conv);
            let want = if enabled { Number::new_approx(v, acc, den, whole) } else { None };
            *judged += 1;
            let got = format!("{:?}", q.value());
            let ok = match want {
                None => !changed && got == format!("{:?}", Value::Number(Number::Regular(v))),
                Some(n) => changed && got == format!("{:?}", Value::Number(n)),
            };
            if !ok {
                bad.push(("fraction_settings_differ_from_layers".into(), format!("unit {:?} ({} {:?}): the layers give enabled={enabled} accuracy={acc} max_denominator={den} max_whole={whole}, so try_fraction({v}) should give {want:?}; it returned {changed} and left {got}", u.symbol(), u.physical_quantity, u.system)));
                break;
            }
        }
    }
    bad
}

fn exercise(conv: &Converter) -> Result<u64, crate::core::PanicRec> {
    crate::core::guarded(|| {
        let mut n = 0u64;
        let units: Vec<_> = conv.all_units().collect();
        for a in &units {
            for b in &units {
                let r = conv.convert(ConvertValue::Number(1.5), ConvertUnit::Key(a.symbol()), ConvertTo::Unit(ConvertUnit::Key(b.symbol())));
                if a.physical_quantity == b.physical_quantity {
                    assert!(r.is_ok(), "harness: same-quantity conversion failed");
                }
                n += 1;
            }
            for v in [0.3, 1.0, 2.5, 1000.0] {
                for t in 0..3 {
                    let mut q = Quantity::new(Value::Number(Number::Regular(v)), Some(a.symbol().to_string()));
                    let _ = match t {
                        0 => q.convert(System::Metric, conv),
                        1 => q.convert(System::Imperial, conv),
                        _ => q.fit(conv),
                    };
                    let _ = format!("{q}");
                    n += 1;
                }
            }
        }
        n
    })
}

pub fn check_layers(ctx: &mut Ctx, layers: &[UnitsFile], planted: &[&'static str], label: &str) {
    let desc = format!("{label}: {} layer(s), planted {planted:?}", layers.len());
    let case = Case::new("layers", desc, 0, "generated").with(json!({"label": label, "planted": planted}));
    ctx.begin(&case);
    let m = model(layers);
    let built = crate::core::guarded(|| {
        let mut b = ConverterBuilder::new();
        for f in layers {
            b.add_units_file(f.clone())?;
        }
        b.finish()
    });
    let built = match built {
        Ok(b) => b,
        Err(p) => {
            ctx.panic_violation(&case, "ConverterBuilder", p);
            return;
        }
    };
    for p in planted {
        ctx.count(&format!("planted:{p}"));
    }
    match (built, &m) {
        (Err(e), Ok(_)) => {
            ctx.violation(&case, "build", "valid_layers_rejected", format!("the layering model accepts these layers but the builder says: {e}"));
        }
        (Err(e), Err(_)) => {
            let name = format!("{e:?}");
            let name = name.split([' ', '{', '(']).next().unwrap_or("?").to_string();
            ctx.count(&format!("rejected:{name}"));
        }
        (Ok(conv), m) => {
            ctx.count("built");
            let mut bad = walk(&conv, m.as_ref().ok());
            if let Err(reason) = m {
                let cause = if reason.contains("is not a unit of") { "inconsistent_layers_accepted|best_unit_of_other_quantity".to_string() } else { format!("inconsistent_layers_accepted|{}", reason.split(':').next().unwrap_or("").split(' ').take(3).collect::<Vec<_>>().join("_")) };
                bad.push((cause, format!("the layers are inconsistent ({reason}) but a converter was returned")));
            }
            if m.is_ok() {
                let (mut judged, mut skipped) = (0u64, 0u64);
                match crate::core::guarded(|| fractions_probe(&conv, layers, &mut judged, &mut skipped)) {
                    Ok(b) => bad.extend(b),
                    Err(p) => ctx.panic_violation(&case, "try_fraction", p),
                }
                ctx.count_n("fraction_probes_judged", judged);
                ctx.count_n("fraction_units_skipped_as_ambiguous", skipped);
                if layers.iter().filter(|l| l.fractions.is_some()).count() >= 2 {
                    ctx.count("built_with_two_or_more_fraction_layers");
                }
            }
            match exercise(&conv) {
                Ok(n) => {
                    ctx.count_n("conversions_exercised", n);
                }
                Err(p) => {
                    if p.harness {
                        bad.push(("same_quantity_conversion_failed".into(), p.message.clone()));
                    } else if m.is_err() {
                        // consequence of an inconsistent converter that should have been rejected
                        ctx.count("panic_on_use_of_inconsistent_converter");
                    } else {
                        ctx.panic_violation(&case, "use_of_built_converter", p);
                    }
                }
            }
            if bad.is_empty() {
                ctx.nontrivial(&case);
                if ctx.evals % 2000 == 1 {
                    ctx.sample(json!({"layers": layers.len(), "units": conv.unit_count(), "planted": planted, "first_units": conv.all_units().take(4).map(|u| format!("{:?}/{:?}/{:?} x{}", u.names, u.symbols, u.aliases, u.ratio)).collect::<Vec<_>>()}));
                }
            }
            for (c, msg) in bad {
                ctx.violation(&case, "converter", &c, msg);
            }
        }
    }
}

fn shipped(ctx: &mut Ctx) {
    let case = Case::new("shipped", "units.toml", 0, "bundled");
    ctx.begin(&case);
    let text = match std::fs::read_to_string("/repo/units.toml") {
        Ok(t) => t,
        Err(e) => {
            ctx.harness_errors.push(format!("cannot read /repo/units.toml: {e}"));
            return;
        }
    };
    let file: UnitsFile = match toml::from_str(&text) {
        Ok(f) => f,
        Err(e) => {
            ctx.violation(&case, "shipped", "units_toml_does_not_deserialize", e.to_string());
            return;
        }
    };
    let built = crate::core::guarded(|| ConverterBuilder::new().with_units_file(file.clone()).and_then(|b| b.finish()));
    match built {
        Err(p) => ctx.panic_violation(&case, "ConverterBuilder(units.toml)", p),
        Ok(Err(e)) => ctx.violation(&case, "shipped", "units_toml_rejected", e.to_string()),
        Ok(Ok(conv)) => {
            if conv != Converter::default() {
                ctx.violation(&case, "shipped", "default_differs_from_units_toml", "Converter::default() != converter built from /repo/units.toml".into());
            } else {
                ctx.nontrivial(&case);
                ctx.count("default_equals_units_toml");
            }
            check_layers(ctx, &[file.clone()], &[], "units.toml");
            // user layers written as TOML text on top of the bundled file (the way the format is used in practice)
            const USER_LAYERS: &[&[&str]] = &[
                &["[fractions]\nimperial = false\n"],
                &["[fractions.quantity]\nmass = false\n"],
                &["[fractions]\nall = { enabled = true, max_denominator = 8 }\n"],
                &["[fractions]\nmetric = true\n[fractions.unit]\ng = { max_whole = 3 }\n", "[fractions]\nmetric = false\n"],
                &["[fractions.unit]\nlb = { max_denominator = 2 }\n", "[fractions]\nimperial = { enabled = true, accuracy = 0.5 }\n"],
                &["[extend.units]\nkilogram = { aliases = [\"kilo\", \"kilos\"] }\n", "[extend.units]\ngram = { names = [\"gramo\", \"gramos\"] }\n"],
                &["[extend]\nprecedence = \"override\"\n[extend.units]\nminute = { names = [\"minuto\", \"minutos\"], symbols = [\"mn\"] }\n"],
                &["[extend.units]\ntsp = { ratio = 0.02 }\n"],
                &["[[quantity]]\nquantity = \"temperature\"\n[quantity.units]\nmetric = [{ names = [\"kelvin\"], symbols = [\"K\"], ratio = 1, expand_si = true }]\n", "[extend.units]\nK = { difference = 0.15, aliases = [\"kelvins\"] }\n"],
                &["[[quantity]]\nquantity = \"mass\"\nbest = { metric = [\"mg\", \"g\", \"kg\"], imperial = [\"oz\", \"lb\"] }\n"],
                &["[[quantity]]\nquantity = \"mass\"\nbest = { metric = [\"mg\", \"g\", \"kg\"], imperial = [\"oz\", \"lb\", \"tsp\"] }\n"],
                &["[[quantity]]\nquantity = \"time\"\nbest = [\"ml\"]\n"],
                &["[fractions.unit]\ntsp = false\n"],
                // `all` next to system levels that say otherwise
                &["[fractions]\nall = true\n"],
                &["[fractions]\nall = { enabled = false }\n"],
                &["[fractions]\nall = { enabled = true, max_denominator = 2 }\nmetric = { enabled = true, max_denominator = 8 }\n", "[fractions]\nall = false\n"],
                // the same unit declared again, the second time with SI expansion
                &["[[quantity]]\nquantity = \"mass\"\n[quantity.units]\nmetric = [{ names = [\"tonne\", \"tonnes\"], symbols = [\"t\"], ratio = 1000000 }]\n", "[[quantity]]\nquantity = \"mass\"\n[quantity.units]\nmetric = [{ names = [\"tonne\", \"tonnes\"], symbols = [\"t\"], ratio = 1000000, expand_si = true }]\n"],
                &["[[quantity]]\nquantity = \"mass\"\n[quantity.units]\nmetric = [{ names = [\"tonne\"], symbols = [\"tn\"], ratio = 1000000, expand_si = true }]\n"],
                // an edit that sets a value to what is usually the default
                &["[extend.units]\nF = { difference = 0 }\n"],
                &["[extend.units]\nC = { difference = -0.0, ratio = 1 }\nfahrenheit = { ratio = 1 }\n"],
                // two keys of one unit in one block
                &["[extend]\nprecedence = \"override\"\n[extend.units]\nl = { names = [\"litro\", \"litros\"] }\nlitre = { names = [\"liter\", \"litre\"] }\n"],
                &["[extend.units]\ngram = { aliases = [\"gr\"] }\ng = { aliases = [\"gm\"] }\n"],
                &["[extend.units]\nkg = { aliases = [\"kilo\"] }\nkilogram = { aliases = [\"kilos\"] }\n"],
                &["[fractions]\nall = true\n[fractions.unit]\ng = false\nkg = { enabled = false }\n"],
                &["[extend]\nprecedence = \"after\"\n[extend.units]\ng = { aliases = [\"gramme\"] }\n", "[extend]\nprecedence = \"after\"\n[extend.units]\ng = { aliases = [\"gr\"] }\n"],
                &["[si]\nprecedence = \"before\"\n[si.prefixes]\nkilo = [\"quilo\", \"kilo-\"]\nhecto = []\ndeca = []\ndeci = []\ncenti = []\nmilli = []\n[si.symbol_prefixes]\nkilo = [\"K\", \"kk\"]\nhecto = []\ndeca = []\ndeci = []\ncenti = []\nmilli = []\n"],
            ];
            for (k, texts) in USER_LAYERS.iter().enumerate() {
                let mut layers = vec![file.clone()];
                let mut ok = true;
                for t in texts.iter() {
                    match toml::from_str::<UnitsFile>(t) {
                        Ok(l) => layers.push(l),
                        Err(e) => {
                            ctx.harness_errors.push(format!("user layer {k} does not deserialize: {e}"));
                            ok = false;
                        }
                    }
                }
                if ok {
                    check_layers(ctx, &layers, &[], &format!("units.toml+user_layer_{k}"));
                    ctx.count("shipped_plus_user_layers");
                }
            }
            // spanish layer on top of the bundled one
            if let Ok(t) = std::fs::read_to_string("/repo/units/spanish.toml") {
                match toml::from_str::<UnitsFile>(&t) {
                    Ok(es) => check_layers(ctx, &[file, es], &[], "units.toml+spanish.toml"),
                    Err(e) => ctx.violation(&case, "shipped", "spanish_toml_does_not_deserialize", e.to_string()),
                }
            }
        }
    }
}

pub fn run(ctx: &mut Ctx) {
    if ctx.shard == 0 {
        shipped(ctx);
    }
    let n = ctx.budget(40_000, 12_000_000);
    for _ in 0..n {
        let seed = ctx.rng.next();
        let mut r = Rng::new(seed);
        let (layers, planted) = gen_layers(&mut r);
        check_layers(ctx, &layers, &planted, &format!("seed {seed}"));
    }
}

pub fn replay(ctx: &mut Ctx, case: &Case) {
    let label = case.params["label"].as_str().unwrap_or("");
    if let Some(seed) = label.strip_prefix("seed ").and_then(|s| s.parse::<u64>().ok()) {
        let mut r = Rng::new(seed);
        let (layers, planted) = gen_layers(&mut r);
        check_layers(ctx, &layers, &planted, label);
    } else {
        shipped(ctx);
    }
}
