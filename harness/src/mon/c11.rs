//! C11 — aisle configuration parsing is total, duplicate-free and round-trips.

use crate::core::{Case, Ctx};
use crate::gen::alphabet;
use cooklang::aisle::{self, AisleConfError};
use serde_json::json;
use std::collections::HashSet;

const ALPHA: &[&str] = &["[", "]", "|", "/", "//", "a", "b", "é", " ", "\t", "\u{a0}", "\u{b}", "\n", "\r\n"];

#[derive(Debug, PartialEq, Clone)]
enum RefErr {
    DupCategory(String),
    DupIngredient(String),
    NoCategory,
    BadCategory,
}

/// Independent reading of the documented format.
fn reference(input: &str) -> Result<Vec<(String, Vec<Vec<String>>)>, RefErr> {
    let mut cats: Vec<(String, Vec<Vec<String>>)> = Vec::new();
    let mut seen_c = HashSet::new();
    let mut seen_n = HashSet::new();
    for raw in input.lines() {
        let line = match raw.find("//") {
            Some(p) => &raw[..p],
            None => raw,
        };
        let line = line.trim();
        if line.is_empty() {
            continue;
        }
        if line.starts_with('[') && line.ends_with(']') && line.len() >= 2 {
            let name = &line[1..line.len() - 1];
            if name.contains('|') {
                return Err(RefErr::BadCategory);
            }
            if !seen_c.insert(name.to_string()) {
                return Err(RefErr::DupCategory(name.to_string()));
            }
            cats.push((name.to_string(), Vec::new()));
        } else {
            let names: Vec<String> = line.split('|').map(|n| n.trim().to_string()).collect();
            for n in &names {
                if !seen_n.insert(n.clone()) {
                    return Err(RefErr::DupIngredient(n.clone()));
                }
            }
            match cats.last_mut() {
                Some(c) => c.1.push(names),
                None => return Err(RefErr::NoCategory),
            }
        }
    }
    Ok(cats)
}

fn offset_in(input: &str, s: &str) -> Option<usize> {
    let a = input.as_ptr() as usize;
    let p = s.as_ptr() as usize;
    if p >= a && p + s.len() <= a + input.len() {
        Some(p - a)
    } else {
        None
    }
}

pub fn check_case(ctx: &mut Ctx, case: &Case) {
    ctx.begin(case);
    let input = case.input.as_str();
    let r = match crate::core::guarded(|| aisle::parse(input)) {
        Ok(r) => r,
        Err(p) => {
            ctx.panic_violation(case, "aisle::parse", p);
            return;
        }
    };
    let ascii_ws_only = !input.chars().any(|c| c.is_whitespace() && !matches!(c, ' ' | '\t' | '\n' | '\r'));
    let mut bad: Vec<(&str, String)> = Vec::new();
    match &r {
        Err(e) => {
            ctx.count("parse_errors");
            let spans: Vec<(cooklang::Span, Option<&str>)> = match e {
                AisleConfError::Parse { span, .. } => vec![(*span, None)],
                AisleConfError::DuplicateCategory { name, first_span, second_span } | AisleConfError::DuplicateIngredient { name, first_span, second_span } => {
                    vec![(*first_span, Some(name.as_str())), (*second_span, Some(name.as_str()))]
                }
            };
            for (s, name) in spans {
                if s.start() > s.end() || s.end() > input.len() || !input.is_char_boundary(s.start()) || !input.is_char_boundary(s.end()) {
                    bad.push(("error_span_out_of_bounds", format!("{e:?}")));
                } else if let Some(n) = name {
                    if &input[s.range()] != n {
                        bad.push(("error_span_does_not_delimit_name", format!("{e:?}: span text {:?}", &input[s.range()])));
                    }
                }
            }
            if let AisleConfError::DuplicateCategory { first_span, second_span, .. } | AisleConfError::DuplicateIngredient { first_span, second_span, .. } = e {
                if first_span.start() >= second_span.start() && first_span != second_span {
                    bad.push(("error_spans_order", format!("{e:?}")));
                }
            }
            // rendering the error through the public rich-error writer must work
            let rendered = crate::core::guarded(|| {
                let mut buf = Vec::new();
                cooklang::error::write_rich_error(e, "aisle.conf", input, false, &mut buf).map(|_| buf.len())
            });
            match rendered {
                Ok(Ok(_)) => {}
                Ok(Err(io)) => bad.push(("error_render_failed", io.to_string())),
                Err(p) => bad.push(("error_render_panics", format!("{} at {}", p.message, p.location))),
            }
        }
        Ok(conf) => {
            ctx.count("parse_ok");
            let mut cat_names = HashSet::new();
            let mut igr_names = HashSet::new();
            let mut last_off = 0usize;
            let mut any = false;
            for c in &conf.categories {
                any = true;
                if !cat_names.insert(c.name) {
                    bad.push(("duplicate_category", format!("{:?}", c.name)));
                }
                match offset_in(input, c.name) {
                    None => bad.push(("name_not_from_input", format!("category {:?}", c.name))),
                    Some(o) => {
                        if o < last_off {
                            bad.push(("not_in_file_order", format!("category {:?} at {o} after {last_off}", c.name)));
                        }
                        last_off = o;
                    }
                }
                for i in &c.ingredients {
                    if i.names.is_empty() {
                        bad.push(("ingredient_without_names", String::new()));
                    }
                    for n in &i.names {
                        if !igr_names.insert(*n) {
                            bad.push(("duplicate_ingredient", format!("{n:?}")));
                        }
                        if *n != n.trim() {
                            bad.push(("name_not_trimmed", format!("{n:?}")));
                        }
                        match offset_in(input, n) {
                            None => bad.push(("name_not_from_input", format!("ingredient {n:?}"))),
                            Some(o) => {
                                if o < last_off {
                                    bad.push(("not_in_file_order", format!("ingredient {n:?} at {o} after {last_off}")));
                                }
                                last_off = o;
                            }
                        }
                    }
                }
            }
            if any {
                ctx.nontrivial(case);
            }
            // lookup
            let info = crate::core::guarded(|| {
                let m = conf.ingredients_info();
                let mut bad = Vec::new();
                for c in &conf.categories {
                    for i in &c.ingredients {
                        for n in &i.names {
                            match m.get(n) {
                                None => bad.push(("lookup_missing", format!("{n:?}"))),
                                Some(inf) => {
                                    if inf.category != c.name || inf.common_name != i.names[0] || inf.name != *n {
                                        bad.push(("lookup_wrong", format!("{n:?} -> category {:?} common {:?}, expected {:?} {:?}", inf.category, inf.common_name, c.name, i.names[0])));
                                    }
                                }
                            }
                        }
                    }
                }
                if m.len() != conf.categories.iter().flat_map(|c| &c.ingredients).map(|i| i.names.len()).sum::<usize>() {
                    bad.push(("lookup_size", format!("{} entries", m.len())));
                }
                bad
            });
            match info {
                Ok(b) => bad.extend(b),
                Err(p) => ctx.panic_violation(case, "ingredients_info", p),
            }
            // round trip
            let rt = crate::core::guarded(|| {
                let mut buf = Vec::new();
                aisle::write(conf, &mut buf).expect("write to Vec");
                String::from_utf8(buf).expect("utf8")
            });
            // the same configuration through writers that take only part of what they are offered (pipes, sockets, slices):
            // the text must arrive complete, or the call must fail
            if let Ok(written) = &rt {
                struct Chunky(Vec<u8>, usize);
                impl std::io::Write for Chunky {
                    fn write(&mut self, b: &[u8]) -> std::io::Result<usize> {
                        let n = b.len().min(self.1);
                        self.0.extend_from_slice(&b[..n]);
                        Ok(n)
                    }
                    fn flush(&mut self) -> std::io::Result<()> {
                        Ok(())
                    }
                }
                for chunk in [1usize, 7] {
                    let mut w = Chunky(Vec::new(), chunk);
                    match crate::core::guarded(|| aisle::write(conf, &mut w).is_ok()) {
                        Err(p) => ctx.panic_violation(case, "aisle::write(chunked)", p),
                        Ok(ok) => {
                            if ok && w.0 != written.as_bytes() {
                                bad.push(("write_lost_output_on_short_writer", format!("a writer taking {chunk} byte(s) per call received {:?}, write() returned Ok; a Vec receives {written:?}", String::from_utf8_lossy(&w.0))));
                            } else {
                                ctx.count("short_writer_ok");
                            }
                        }
                    }
                }
                let mut small = vec![0u8; written.len() / 2];
                let mut slice: &mut [u8] = &mut small;
                if !written.is_empty() && matches!(crate::core::guarded(|| aisle::write(conf, &mut slice).is_ok()), Ok(true)) {
                    bad.push(("write_ok_although_output_did_not_fit", format!("{} bytes into a {}-byte slice returned Ok", written.len(), written.len() / 2)));
                }
            }
            match rt {
                Err(p) => ctx.panic_violation(case, "aisle::write", p),
                Ok(written) => match crate::core::guarded(|| aisle::parse(&written).map(|c| c.categories == conf.categories)) {
                    Err(p) => ctx.panic_violation(case, "aisle::parse(written)", p),
                    Ok(Ok(true)) => ctx.count("round_trips_ok"),
                    Ok(Ok(false)) => {
                        let cause = if ascii_ws_only { "roundtrip_differs" } else { "roundtrip_differs|non_ascii_whitespace" };
                        bad.push((cause, format!("written {written:?} parses to a different configuration than {:?}", conf.categories)))
                    }
                    Ok(Err(e)) => {
                        let cause = if ascii_ws_only { "roundtrip_rejected" } else { "roundtrip_rejected|non_ascii_whitespace" };
                        bad.push((cause, format!("written {written:?} is rejected: {e:?}")))
                    }
                },
            }
        }
    }
    // reference parser (the documented format; white space is Unicode white space)
    {
        ctx.count("compared_with_reference_parser");
        let want = reference(input);
        match (&r, &want) {
            (Ok(conf), Ok(w)) => {
                let got: Vec<(String, Vec<Vec<String>>)> = conf.categories.iter().map(|c| (c.name.to_string(), c.ingredients.iter().map(|i| i.names.iter().map(|n| n.to_string()).collect()).collect())).collect();
                if got != *w {
                    bad.push(("differs_from_reference_parser", format!("got {got:?} expected {w:?}")));
                }
            }
            (Err(e), Err(w)) => {
                let same = matches!((e, w), (AisleConfError::DuplicateCategory { .. }, RefErr::DupCategory(_)) | (AisleConfError::DuplicateIngredient { .. }, RefErr::DupIngredient(_)) | (AisleConfError::Parse { .. }, RefErr::NoCategory | RefErr::BadCategory));
                if !same {
                    bad.push(("error_kind_differs_from_reference", format!("got {e:?} expected {w:?}")));
                } else if let (AisleConfError::DuplicateCategory { name, .. } | AisleConfError::DuplicateIngredient { name, .. }, RefErr::DupCategory(n) | RefErr::DupIngredient(n)) = (e, w) {
                    if name != n {
                        bad.push(("error_name_differs_from_reference", format!("got {name:?} expected {n:?}")));
                    }
                }
            }
            (Ok(_), Err(w)) => bad.push(("accepted_but_reference_rejects", format!("{w:?}"))),
            (Err(e), Ok(_)) => bad.push(("rejected_but_reference_accepts", format!("{e:?}"))),
        }
    }
    if ctx.evals % 50_000 == 1 {
        ctx.sample(json!({"input": input, "result": match &r { Ok(c) => format!("{:?}", c.categories), Err(e) => format!("{e:?}") }}));
    }
    for (c, m) in bad {
        ctx.violation(case, "aisle", c, m);
    }
}

/// long names (15-60 bytes) mixing ASCII and multi-byte words, optionally with `|` inside: every error message or span
/// computation that cuts, pads or indexes a name by bytes meets a multi-byte character at some offset
fn long_name(rng: &mut crate::core::Rng, pipes: bool) -> String {
    const W: &[&str] = &["fruits", "et", "légumes", "野菜と果物", "乳製品とたまご", "produce", "crème fraîche", "a", "😀", "œufs", "x"];
    let n = rng.range(2, 7);
    let mut s = String::new();
    for k in 0..n {
        if k > 0 {
            s.push_str(if pipes && rng.chance(1, 3) { "|" } else { " " });
        }
        s.push_str(*rng.pick(W));
    }
    s
}

fn random_file(rng: &mut crate::core::Rng) -> String {
    // plain names, names in other letter cases, names made of the characters other formats give a meaning to
    let names = ["apple", "apples", "milk", "égg", "bay leaves", "a", "b", "x y", "", "tuna", "[x]", "a//b", "Apple", "MILK", "Égg", "ÉGG", "-", "--", "-a-", "[-", "-]", "[- c -]", "#x", "@y{1}", ">> k: v", "= s", "---", "\\", "ß", "SS", "ǆ", "ǅ"];
    let cats = ["produce", "dairy", "c", "d e", " padded ", "", "a|b", "produce", "Produce", "DAIRY", "-", "-frozen-", "--", "- c -", "bio", "Bio", "#1", "[x]", "x]y", "a // b"];
    let mut s = String::new();
    let lines = rng.range(1, 12);
    for _ in 0..lines {
        match rng.below(10) {
            0..=2 => {
                if rng.chance(1, 12) {
                    // a header followed by a comment that contains the separators
                    s.push_str(&format!("[{}] // milk|cheese [x] and so on", rng.pick(&cats)));
                    s.push_str(*rng.pick(&["\n", "\r\n"]));
                    continue;
                }
                s.push('[');
                if rng.chance(1, 4) {
                    let pipes = rng.chance(1, 3);
                    s.push_str(&long_name(rng, pipes));
                } else {
                    s.push_str(*rng.pick(&cats));
                }
                s.push(']');
            }
            3 => {}
            4 => s.push_str("// comment"),
            _ => {
                let n = rng.range(1, 3);
                for k in 0..n {
                    if k > 0 {
                        s.push_str(*rng.pick(&["|", " | ", "| "]));
                    }
                    if rng.chance(1, 5) {
                        s.push_str(&long_name(rng, false));
                    } else {
                        s.push_str(*rng.pick(&names));
                    }
                    if rng.chance(1, 6) {
                        s.push_str(&format!("{}", rng.below(50)));
                    }
                }
                if rng.chance(1, 8) {
                    s.push_str(*rng.pick(&[" // trailing", " // salted|unsalted", "// [x]", " //"]));
                }
            }
        }
        if rng.chance(1, 10) {
            s.push_str(*rng.pick(&[" ", "\t", "\u{a0}", "\u{b}", "\u{c}", "\r"]));
        }
        s.push_str(*rng.pick(&["\n", "\n", "\r\n", "\n\n"]));
    }
    if rng.chance(1, 4) {
        s.pop();
    }
    s
}

pub fn run(ctx: &mut Ctx) {
    let miri = std::env::var("VERIF_MIRI").is_ok();
    let max = if miri { 2 } else if ctx.is_thorough() { 6 } else { 5 };
    let total = alphabet::count_upto(ALPHA.len(), max);
    ctx.notes.insert("exhaustive_max_symbols".into(), max.into());
    ctx.notes.insert("exhaustive_strings".into(), total.into());
    ctx.exhaustive = true;
    let mut s = String::new();
    let mut idx = ctx.shard as u64;
    while idx < total {
        alphabet::nth(ALPHA, idx, &mut s);
        check_case(ctx, &Case::new("exhaustive", s.as_str(), 0, "n/a"));
        ctx.count("inputs_exhaustive");
        idx += ctx.nshards as u64;
    }
    if miri {
        // every error path and every "slice at the end of the input" shape
        for t in ["|", "[c]\n|", "[c]\na|", "[c]\na|a", "[c]\n[c]", "a", "[a|b]", "[c]\na\nb|a", "[c]\n\u{b}[x]", "[c]\n\u{a0}", "[c]\né|é", "[é]\n[é]", "[c]\nx // c\n[d]\ny|z", "[c]\r\na\r\n", "[]\n|\n", "[c]\n||"] {
            check_case(ctx, &Case::new("targeted", t, 0, "n/a"));
            ctx.count("inputs_targeted");
        }
    }
    let n = if miri { 40 } else { ctx.budget(150_000, 24_000_000) };
    for _ in 0..n {
        let f = random_file(&mut ctx.rng);
        check_case(ctx, &Case::new("random", f, 0, "n/a"));
        ctx.count("inputs_random");
    }
}

pub fn replay(ctx: &mut Ctx, case: &Case) {
    check_case(ctx, case);
}
