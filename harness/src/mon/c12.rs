//! C12 — fraction approximation never misstates a value.

use crate::core::{Case, Ctx};
use cooklang::convert::System;
use cooklang::quantity::Number;
use cooklang::{Converter, Quantity, Value};
use serde_json::json;

const DOC_DENOMS: &[u32] = &[2, 3, 4, 5, 8, 10, 16, 32, 64];

fn ulps(a: f64, b: f64) -> u64 {
    if a == b {
        return 0;
    }
    if !a.is_finite() || !b.is_finite() || (a < 0.0) != (b < 0.0) {
        return u64::MAX;
    }
    (a.to_bits() as i64 - b.to_bits() as i64).unsigned_abs()
}

pub fn judge(v: f64, acc: f32, max_den: u8, max_whole: u32, r: Option<Number>) -> Result<&'static str, (String, String)> {
    let bad = |c: &str, m: String| Err((c.to_string(), m));
    let Some(n) = r else {
        // declined: only the "integers within the limit come back as plain numbers" clause forbids it
        if v.is_finite() && v > 0.0 && v.fract() == 0.0 && v < u32::MAX as f64 && v <= max_whole as f64 {
            return bad("integer_declined", format!("integer {v} within max_whole {max_whole} was declined"));
        }
        return Ok("declined");
    };
    if !(v > 0.0) || !v.is_finite() {
        return bad("nonpositive_or_nonfinite_accepted", format!("{v} gave {n:?}"));
    }
    // the exact value by my own recomposition (not only through Number::value(), which is part of what is judged)
    let mine = match n {
        Number::Regular(x) => x,
        Number::Fraction { whole, num, den, err } => whole as f64 + err + num as f64 / den as f64,
    };
    let back = n.value();
    // the other way to read the exact value: the conversion into f64
    let converted: f64 = n.into();
    if converted.to_bits() != back.to_bits() && ulps(converted, mine) > 2 {
        return bad("conversion_to_f64_disagrees_with_fields", format!("{n:?}: f64::from gives {converted:e}, the fields give {mine:e}"));
    }
    if ulps(back, mine) > 2 {
        return bad("value_method_disagrees_with_fields", format!("{n:?}: value() gives {back:e}, the fields give {mine:e}"));
    }
    if ulps(mine, v) > 4 {
        return bad("value_misstated", format!("input {v:e} but result {n:?} denotes {mine:e}"));
    }
    if ulps(back, v) > 4 {
        return bad("value_misstated", format!("input {v:e} but result {n:?} has value {back:e}"));
    }
    match n {
        Number::Regular(x) => {
            if x != v {
                return bad("regular_value_differs", format!("{v} -> Regular({x})"));
            }
            if v.trunc() > max_whole as f64 {
                return bad("whole_above_limit", format!("{v} -> Regular with max_whole {max_whole}"));
            }
            if v.fract() >= 1e-9 {
                return bad("non_integer_as_regular", format!("{v} -> Regular"));
            }
            Ok("regular")
        }
        Number::Fraction { whole, num, den, err } => {
            let max_err = acc as f64 * v;
            if err.abs() > max_err * (1.0 + 1e-12) + f64::MIN_POSITIVE {
                return bad("error_above_accuracy", format!("{v} acc {acc}: err {err:e} > {max_err:e} in {n:?}"));
            }
            if whole > max_whole {
                return bad("whole_above_limit", format!("{v} -> {n:?} with max_whole {max_whole}"));
            }
            if num == 0 {
                if whole == 0 {
                    return bad("zero_fraction", format!("{v} -> {n:?}"));
                }
            } else {
                if !DOC_DENOMS.contains(&den) {
                    return bad("unsupported_denominator", format!("{v} -> {n:?}"));
                }
                if den > max_den as u32 {
                    return bad("denominator_above_max", format!("{v} max_den {max_den} -> {n:?}"));
                }
                if num >= den {
                    return bad("numerator_not_below_denominator", format!("{v} -> {n:?}"));
                }
            }
            // printed form
            let shown = format!("{n}");
            let want = match (whole, num) {
                (0, nn) => format!("{nn}/{den}"),
                (w, 0) => format!("{w}"),
                (w, nn) => format!("{w} {nn}/{den}"),
            };
            if shown != want {
                return bad("display_differs", format!("{n:?} prints {shown:?}, expected {want:?}"));
            }
            // and it denotes exactly that fraction
            let parsed: f64 = shown
                .split(' ')
                .map(|p| match p.split_once('/') {
                    Some((a, b)) => a.parse::<f64>().unwrap_or(f64::NAN) / b.parse::<f64>().unwrap_or(f64::NAN),
                    None => p.parse::<f64>().unwrap_or(f64::NAN),
                })
                .sum();
            let exact = whole as f64 + num as f64 / den as f64;
            if parsed != exact {
                return bad("display_not_that_fraction", format!("{shown:?} parses to {parsed}, fraction is {exact}"));
            }
            // the same under format specifications (width, alignment, precision): padding aside, what is printed still
            // denotes that fraction — exactly when it is written `w n/d`, to the printed precision when it is a decimal
            let denote = |t: &str| -> f64 {
                t.split(' ')
                    .filter(|p| !p.is_empty())
                    .map(|p| match p.split_once('/') {
                        Some((a, b)) => a.parse::<f64>().unwrap_or(f64::NAN) / b.parse::<f64>().unwrap_or(f64::NAN),
                        None => p.parse::<f64>().unwrap_or(f64::NAN),
                    })
                    .sum()
            };
            for (spec, text, prec) in [("{:.0}", format!("{n:.0}"), 0), ("{:.1}", format!("{n:.1}"), 1), ("{:.3}", format!("{n:.3}"), 3), ("{:12}", format!("{n:12}"), 17), ("{:<9.2}", format!("{n:<9.2}"), 2), ("{:>4.1}", format!("{n:>4.1}"), 1), ("{:^7}", format!("{n:^7}"), 17)] {
                let t = text.trim();
                let p = denote(t);
                let ok = if t.contains('/') || prec == 17 { p == exact } else { (p - exact).abs() <= 0.5 * 10f64.powi(-prec) * (1.0 + 1e-9) };
                if !ok {
                    return bad("display_with_format_spec_misstates", format!("{n:?} printed with {spec} gives {text:?}, the fraction is {want}"));
                }
            }
            Ok(if num == 0 { "rounded_whole" } else { "fraction" })
        }
    }
}

fn values(ctx: &mut Ctx) -> Vec<f64> {
    let mut v: Vec<f64> = Vec::new();
    for k in 0..=20_000u32 {
        v.push(k as f64 / 1000.0);
    }
    let eps = [0.0, 1e-12, 1e-9, 1e-6, 1e-3];
    for q in 1..=64u32 {
        for p in 0..=(2 * q) {
            let base = p as f64 / q as f64;
            for e in eps {
                v.push(base + e);
                v.push(base - e);
            }
            v.push(f64::from_bits(base.to_bits().wrapping_add(1)));
            if base > 0.0 {
                v.push(f64::from_bits(base.to_bits() - 1));
            }
        }
    }
    for i in [1.0, 2.0, 5.0, 6.0, 399.0, 400.0, 401.0, 65535.0, 4294967294.0, 4294967295.0, 4294967296.0, 1e12] {
        for e in [0.0, 1e-11, 1e-9, 1e-4, 0.5, 0.9999] {
            v.push(i + e);
            v.push(i - e);
        }
    }
    // large whole parts with a fractional part exactly on a table fraction (whole * den exceeds u32 from 2^32/den on)
    for w in [65_535.0, 16_777_215.0, 268_435_455.0, 268_435_456.0, 268_435_457.0, 300_000_000.0, 1_431_655_765.0, 2_147_483_647.0, 2_147_483_648.0, 3_000_000_000.0, 4_294_967_293.0, 4_294_967_294.0] {
        for (p, q) in [(1.0, 2.0), (1.0, 4.0), (3.0, 4.0), (1.0, 8.0), (1.0, 16.0), (15.0, 16.0), (1.0, 32.0), (63.0, 64.0)] {
            v.push(w + p / q);
        }
    }
    for k in 0..=33 {
        v.push(2f64.powi(k));
        v.push(2f64.powi(-k));
    }
    v.extend([0.0, -0.0, -1.0, -0.5, f64::NAN, f64::INFINITY, f64::NEG_INFINITY, f64::MIN_POSITIVE, 1e-300, 1e300, f64::MAX]);
    let n = if ctx.is_thorough() { 100_000 } else { 20_000 };
    let mut r = crate::core::Rng::new(ctx.seed ^ 0xC12);
    for _ in 0..n {
        v.push(r.log_uniform(1e-12, 1e10));
    }
    v
}

pub fn check_one(ctx: &mut Ctx, v: f64, acc: f32, max_den: u8, max_whole: u32) {
    let case = Case::new("new_approx", format!("{v:e}"), 0, "n/a").with(json!({"bits": v.to_bits(), "accuracy": acc, "max_den": max_den, "max_whole": max_whole}));
    ctx.evals += 1;
    let r = match crate::core::guarded(|| Number::new_approx(v, acc, max_den, max_whole)) {
        Ok(r) => r,
        Err(p) => {
            ctx.panic_violation(&case, "new_approx", p);
            return;
        }
    };
    // the oracle reads the result through the library's own value() and Display: guarded like any other call
    let verdict = match crate::core::guarded(|| judge(v, acc, max_den, max_whole, r)) {
        Ok(x) => x,
        Err(p) => {
            ctx.panic_violation(&case, "value_or_display_of_result", p);
            return;
        }
    };
    match verdict {
        Ok(kind) => {
            ctx.count(&format!("outcome:{kind}"));
            if kind != "declined" {
                ctx.nontrivial_hash(crate::core::hash64(&[&v.to_bits().to_le_bytes()[..], &[max_den], &acc.to_bits().to_le_bytes()[..], &max_whole.to_le_bytes()[..]].concat()));
                if ctx.evals % 400_000 == 1 {
                    ctx.sample(json!({"value": v, "accuracy": acc, "max_den": max_den, "max_whole": max_whole, "result": format!("{:?}", r.unwrap()), "printed": format!("{}", r.unwrap())}));
                }
            }
        }
        Err((c, m)) => ctx.violation(&case, "new_approx", &c, m),
    }
}

/// two approximations of the same number in a row (first loose, then with other limits): the second result is judged
/// against the value the number had, with the SECOND call's accuracy, denominator and whole-part limits
fn sequences(ctx: &mut Ctx, vals: &[f64]) {
    let first: [(f32, u8, u32); 4] = [(0.2, 2, u32::MAX), (0.05, 4, u32::MAX), (0.5, 64, 10), (1.0, 3, u32::MAX)];
    let second: [(f32, u8, u32); 5] = [(0.1, 16, u32::MAX), (0.02, 4, u32::MAX), (0.0, 64, u32::MAX), (0.05, 2, 0), (0.01, 8, 5)];
    for (i, v) in vals.iter().enumerate() {
        if i % 5 != 0 || !ctx.mine((i / 5) as u64) {
            continue;
        }
        for (a1, d1, w1) in first {
            let Ok(Some(n0)) = crate::core::guarded(|| Number::new_approx(*v, a1, d1, w1)) else { continue };
            let Ok(v0) = crate::core::guarded(|| n0.value()) else { continue };
            for (a2, d2, w2) in second {
                let case = Case::new("try_approx_sequence", format!("{v:e}"), 0, "n/a").with(json!({"bits": v.to_bits(), "first": [a1 as f64, d1 as f64, w1 as f64], "second": [a2 as f64, d2 as f64, w2 as f64]}));
                ctx.evals += 1;
                let mut n1 = n0;
                let ok = match crate::core::guarded(|| n1.try_approx(a2, d2, w2)) {
                    Ok(b) => b,
                    Err(p) => {
                        ctx.panic_violation(&case, "try_approx", p);
                        continue;
                    }
                };
                let same_bits = |a: &Number, b: &Number| format!("{a:?}") == format!("{b:?}");
                if !ok && !same_bits(&n1, &n0) {
                    ctx.violation(&case, "try_approx", "declined_but_changed", format!("{n0:?} became {n1:?} although try_approx returned false"));
                    continue;
                }
                match crate::core::guarded(|| judge(v0, a2, d2, w2, if ok { Some(n1) } else { None })) {
                    Err(p) => ctx.panic_violation(&case, "value_or_display_of_result", p),
                    Ok(Err((c, m))) => ctx.violation(&case, "try_approx", &c, format!("{n0:?} (value {v0:e}) then try_approx({a2}, {d2}, {w2}) -> {ok}: {m}")),
                    Ok(Ok(_)) => ctx.count(if ok { "sequence_second_accepted" } else { "sequence_second_declined" }),
                }
            }
        }
    }
}

#[derive(serde::Deserialize, Default, Clone, Copy)]
struct FracCfg {
    enabled: Option<bool>,
    accuracy: Option<f32>,
    max_denominator: Option<u8>,
    max_whole: Option<u32>,
}

/// through the public callers with the bundled per-unit limits (read from /repo/units.toml)
fn callers(ctx: &mut Ctx) {
    let conv = Converter::bundled();
    let toml_text = std::fs::read_to_string("/repo/units.toml").unwrap_or_default();
    let doc: toml::Value = toml::from_str(&toml_text).unwrap_or(toml::Value::Table(Default::default()));
    let unit_cfg = |sym: &str| -> (u8, u32, f32) {
        let mut c = FracCfg::default();
        if let Some(u) = doc.get("fractions").and_then(|f| f.get("unit")).and_then(|u| u.get(sym)) {
            if let Ok(x) = u.clone().try_into::<FracCfg>() {
                c = x;
            }
        }
        let _ = c.enabled;
        (c.max_denominator.unwrap_or(4).clamp(1, 16), c.max_whole.unwrap_or(u32::MAX), c.accuracy.unwrap_or(0.05))
    };
    let units = ["tsp", "tbsp", "cup", "fl oz", "pint", "oz", "lb", "in", "ft", "ml", "l", "g", "kg", "cm", "F", "C", "min"];
    let mut r = crate::core::Rng::new(ctx.seed ^ 0xCA11);
    let n = ctx.budget(40_000, 8_000_000);
    for i in 0..n {
        let u = units[(i % units.len() as u64) as usize];
        let v = if i % 3 == 0 { (r.below(4000) as f64) / 16.0 } else { r.log_uniform(1e-3, 1e4) };
        // one in seven negative: a fraction cannot carry a sign, so none of the callers may produce one
        let v = if i % 7 == 6 { -v } else { v };
        let range_end = if i % 5 == 4 { Some(v * *r.pick(&[1.125, 1.5, 5.5, 6.0, 1.25, 2.0, 16.0])) } else { None };
        for op in 0..4 {
            // op 3: conversion to an explicitly named unit of the same quantity (its limits, not the source's, apply)
            let explicit = match u {
                "tsp" => "tbsp", "tbsp" => "tsp", "cup" => "fl oz", "fl oz" => "cup", "pint" => "cup", "oz" => "lb", "lb" => "oz", "in" => "ft", "ft" => "in",
                "ml" => "cup", "l" => "pint", "g" => "oz", "kg" => "lb", "cm" => "in", "F" => "C", "C" => "F", _ => "h",
            };
            let value0 = match range_end {
                Some(e) => Value::Range { start: Number::Regular(v), end: Number::Regular(e) },
                None => Value::Number(Number::Regular(v)),
            };
            let mut q = Quantity::new(value0, Some(u.to_string()));
            let case = Case::new("caller", format!("{v} {u}"), 0, "bundled").with(json!({"op": op, "bits": v.to_bits(), "unit": u}));
            ctx.evals += 1;
            let res = crate::core::guarded(|| match op {
                0 => {
                    let _ = q.convert(System::Imperial, &conv);
                }
                1 => {
                    let _ = q.fit(&conv);
                }
                2 => {
                    let _ = q.try_fraction(&conv);
                }
                _ => {
                    let _ = q.convert(explicit, &conv);
                }
            });
            if let Err(p) = res {
                ctx.panic_violation(&case, "caller", p);
                continue;
            }
            if v < 0.0 {
                ctx.count("caller_negative_inputs");
            }
            let numbers: Vec<(&str, Number)> = match q.value() {
                Value::Number(n) => vec![("value", *n)],
                Value::Range { start, end } => vec![("range start", *start), ("range end", *end)],
                Value::Text(_) => vec![],
            };
            for (which, number) in numbers {
                let Number::Fraction { whole, num, den, err } = number else { continue };
                if v <= 0.0 && !matches!(u, "F" | "C") {
                    ctx.violation(&case, "caller", "non_positive_value_became_fraction", format!("{v} {u} -> {q} ({which} {number:?})"));
                    continue;
                }
                ctx.count("caller_fraction_results");
                if which != "value" {
                    ctx.count("caller_fraction_results_in_ranges");
                }
                // the limits are those of the unit the quantity is shown in AFTER the call
                let sym = q.unit().unwrap_or("").to_string();
                let unit = conv.find_unit(&sym);
                let (md, mw, acc) = unit_cfg(unit.as_ref().map(|u| u.symbol()).unwrap_or(""));
                let Ok(value) = crate::core::guarded(|| number.value()) else {
                    ctx.violation(&case, "caller", "value_panics", format!("{number:?}"));
                    continue;
                };
                if num > 0 && (den > md as u32 || !DOC_DENOMS.contains(&den) || num >= den) {
                    ctx.violation(&case, "caller", "denominator_above_unit_limit", format!("{v} {u} -> {q} ({which} {number:?}) but {sym} allows max_den {md}"));
                } else if whole > mw {
                    ctx.violation(&case, "caller", "whole_above_unit_limit", format!("{v} {u} -> {q} ({which} {number:?}) but {sym} allows max_whole {mw}"));
                } else if err.abs() > acc as f64 * value * (1.0 + 1e-9) {
                    ctx.violation(&case, "caller", "error_above_unit_accuracy", format!("{v} {u} -> {which} {number:?}, accuracy {acc}"));
                } else {
                    ctx.nontrivial_hash(crate::core::hash64(format!("{v}{u}{op}{which}").as_bytes()));
                }
            }
        }
    }
}

/// a converter whose fraction limits come from several levels of a user layer: the unit's own entry wins over the
/// system level, which wins over `all` (units_file rustdoc: all < metric/imperial < quantity < unit)
fn layered_limits(ctx: &mut Ctx) {
    let text = "[fractions]\nall = { enabled = true, max_denominator = 16, max_whole = 100, accuracy = 0.2 }\nimperial = { enabled = true, max_denominator = 8, max_whole = 50 }\n[fractions.unit]\ncup = { max_denominator = 2, max_whole = 3 }\nlb = { accuracy = 0.01, max_denominator = 4 }\ng = { max_whole = 2 }\n";
    let Some(conv) = toml::from_str::<cooklang::convert::UnitsFile>(text).ok().and_then(|l| Converter::builder().with_units_file(cooklang::convert::UnitsFile::bundled()).ok()?.with_units_file(l).ok()?.finish().ok()) else {
        ctx.harness_errors.push("C12: the layered converter does not build".into());
        return;
    };
    // (symbol, max_den, max_whole, accuracy) the layers give each probed unit
    let limits: [(&str, u8, u32, f32); 6] = [("c", 2, 3, 0.2), ("lb", 4, 50, 0.01), ("g", 16, 2, 0.2), ("oz", 8, 50, 0.2), ("ml", 16, 100, 0.2), ("tsp", 8, 50, 0.2)];
    let mut r = crate::core::Rng::new(ctx.seed ^ 0x1a7e);
    let n = ctx.budget(6_000, 2_400_000);
    for i in 0..n {
        let (sym, md, mw, acc) = limits[(i % 6) as usize];
        let v = match i % 3 {
            0 => (r.below(1600) as f64) / 16.0,
            1 => r.log_uniform(1e-2, 2e2),
            _ => (r.below(120) as f64) + [0.125, 0.3, 0.5, 0.0625, 1.0 / 3.0][r.below(5)],
        };
        let mut q = Quantity::new(Value::Number(Number::Regular(v)), Some(sym.to_string()));
        let case = Case::new("caller", format!("{v} {sym}"), 0, "layered").with(json!({"bits": v.to_bits(), "unit": sym}));
        ctx.evals += 1;
        if let Err(p) = crate::core::guarded(|| q.try_fraction(&conv)) {
            ctx.panic_violation(&case, "try_fraction", p);
            continue;
        }
        if q.unit() != Some(sym) {
            continue;
        }
        if let Value::Number(Number::Fraction { whole, num, den, err }) = q.value() {
            ctx.count("layered_caller_fraction_results");
            if *num > 0 && *den > md as u32 {
                ctx.violation(&case, "caller", "denominator_above_unit_limit", format!("{v} {sym} -> {q} but the layers give {sym} max_denominator {md}"));
            } else if *whole > mw {
                ctx.violation(&case, "caller", "whole_above_unit_limit", format!("{v} {sym} -> {q} but the layers give {sym} max_whole {mw}"));
            } else if err.abs() > acc as f64 * v * (1.0 + 1e-9) {
                ctx.violation(&case, "caller", "error_above_unit_accuracy", format!("{v} {sym} -> {:?} but the layers give {sym} accuracy {acc}", q.value()));
            }
        }
    }
}

/// two user layers: `all` is set in both (the later one counts), a unit asks for max_denominator 1 and another for 0
/// (documented range 1..16, clamped), and the volume best list is one list mixing systems whose levels differ
fn layered_limits_2(ctx: &mut Ctx) {
    let l1 = "[fractions]\nall = { enabled = true, accuracy = 0.5, max_denominator = 16 }\n";
    let l2 = "[fractions]\nall = { enabled = true, accuracy = 0.01, max_denominator = 2, max_whole = 3 }\nmetric = { enabled = true, max_denominator = 2 }\nimperial = { enabled = true, max_denominator = 8 }\n[fractions.unit]\ntsp = { max_denominator = 1, max_whole = 5 }\ntbsp = { max_denominator = 0 }\nm = true\nlb = { max_denominator = 2, max_whole = 7 }\n[fractions.quantity]\nmass = { enabled = true, max_denominator = 4 }\n\n[[quantity]]\nquantity = \"volume\"\nbest = [\"l\", \"cup\"]\n\n[[quantity]]\nquantity = \"time\"\n[quantity.units]\nunspecified = [{ names = [\"glass\"], symbols = [\"gl\"], ratio = 7 }]\n\n[[quantity]]\nquantity = \"length\"\n[quantity.units]\nunspecified = [{ names = [\"span\"], symbols = [\"sp\"], ratio = 0.2 }]\n";
    let build = || -> Option<Converter> {
        let a: cooklang::convert::UnitsFile = toml::from_str(l1).ok()?;
        let b: cooklang::convert::UnitsFile = toml::from_str(l2).ok()?;
        Converter::builder().with_units_file(cooklang::convert::UnitsFile::bundled()).ok()?.with_units_file(a).ok()?.with_units_file(b).ok()?.finish().ok()
    };
    let Some(conv) = build() else {
        ctx.harness_errors.push("C12: the second layered converter does not build".into());
        return;
    };
    // (symbol, max_den, max_whole, accuracy): unit entry > quantity entry > system level > all of the LAST layer; unset accuracy is left
    // at the loosest value that any reading of the layering could give (not judged tighter than that)
    let limits: [(&str, u8, u32, f32); 10] = [("m", 2, u32::MAX, 0.05), ("sp", 2, 3, 0.01), ("tsp", 1, 5, 0.05), ("tbsp", 1, u32::MAX, 0.05), ("l", 2, u32::MAX, 0.05), ("c", 8, u32::MAX, 0.05), ("gl", 2, 3, 0.01), ("lb", 2, 7, 0.05), ("oz", 4, u32::MAX, 0.05), ("g", 4, u32::MAX, 0.05)];
    let lim = |sym: &str| limits.iter().find(|l| l.0 == sym).copied();
    let mut r = crate::core::Rng::new(ctx.seed ^ 0x2a7e);
    let n = ctx.budget(6_000, 2_400_000);
    for i in 0..n {
        let (sym, ..) = limits[(i % 10) as usize];
        let v = match (i / 10) % 3 {
            0 => (r.below(160) as f64) / 16.0,
            1 => r.log_uniform(1e-2, 2e1),
            _ => (r.below(8) as f64) + [0.125, 0.375, 0.5, 0.3125, 1.0 / 3.0, 0.484375][r.below(6)],
        };
        for op in 0..3 {
            let mut q = Quantity::new(Value::Number(Number::Regular(v)), Some(sym.to_string()));
            let case = Case::new("caller", format!("{v} {sym} op{op}"), 0, "layered2").with(json!({"bits": v.to_bits(), "unit": sym, "op": op}));
            ctx.evals += 1;
            let res = crate::core::guarded(|| match op {
                0 => {
                    let _ = q.try_fraction(&conv);
                }
                1 => {
                    let _ = q.fit(&conv);
                }
                _ => {
                    let _ = q.convert(System::Imperial, &conv);
                }
            });
            if let Err(p) = res {
                ctx.panic_violation(&case, "caller", p);
                continue;
            }
            let shown = q.unit().and_then(|u| conv.find_unit(u)).map(|u| u.symbol().to_string()).unwrap_or_default();
            let Some((_, md, mw, acc)) = lim(&shown) else { continue };
            if let Value::Number(Number::Fraction { whole, num, den, err }) = q.value() {
                ctx.count("layered_caller_fraction_results");
                let val = *whole as f64 + *num as f64 / *den as f64 + err;
                if *num > 0 && *den > md as u32 {
                    ctx.violation(&case, "caller", "denominator_above_unit_limit", format!("{v} {sym} -> {q} but the layers give {shown} max_denominator {md}"));
                } else if *whole > mw {
                    ctx.violation(&case, "caller", "whole_above_unit_limit", format!("{v} {sym} -> {q} but the layers give {shown} max_whole {mw}"));
                } else if err.abs() > acc as f64 * val * (1.0 + 1e-9) {
                    ctx.violation(&case, "caller", "error_above_unit_accuracy", format!("{v} {sym} -> {:?} but the layers give {shown} accuracy {acc}", q.value()));
                }
            }
        }
    }
}

/// A converter in which fractions are switched on for temperatures (units with an offset) and whose lists offer more than
/// one unit: whatever unit and form a caller ends up with denotes the temperature it started from.
fn offset_units(ctx: &mut Ctx) {
    let layer = "[fractions.quantity]\ntemperature = { enabled = true, max_denominator = 4 }\n\n[[quantity]]\nquantity = \"temperature\"\nbest = { metric = [\"C\", \"K\"], imperial = [\"F\"] }\n[quantity.units]\nmetric = [{ names = [\"kelvin\"], symbols = [\"K\"], ratio = 1 }]\n";
    let Some(conv) = toml::from_str::<cooklang::convert::UnitsFile>(layer).ok().and_then(|f| Converter::builder().with_units_file(cooklang::convert::UnitsFile::bundled()).ok()?.with_units_file(f).ok()?.finish().ok()) else {
        ctx.harness_errors.push("C12: the converter with temperature fractions does not build".into());
        return;
    };
    let mut r = crate::core::Rng::new(ctx.seed ^ 0x7e3);
    let n = ctx.budget(3_000, 300_000);
    for i in 0..n {
        let unit = ["K", "C", "F"][(i % 3) as usize];
        let v = match (i / 3) % 3 {
            0 => (r.below(1600) as f64) / 4.0,
            1 => 273.15 + (r.below(40) as f64) / 4.0,
            _ => r.log_uniform(1e-1, 1e3),
        };
        for op in 0..4 {
            let mut q = Quantity::new(Value::Number(Number::Regular(v)), Some(unit.to_string()));
            let case = Case::new("caller", format!("{v} {unit} op{op}"), 0, "temperature_fractions").with(json!({"bits": v.to_bits(), "unit": unit, "op": op}));
            ctx.evals += 1;
            let res = crate::core::guarded(|| match op {
                0 => q.fit(&conv).is_ok(),
                1 => q.convert(System::Metric, &conv).is_ok(),
                2 => q.convert(System::Imperial, &conv).is_ok(),
                _ => q.convert(if unit == "K" { "C" } else { "K" }, &conv).is_ok(),
            });
            if let Err(p) = res {
                ctx.panic_violation(&case, "caller", p);
                continue;
            }
            let base = |val: f64, u: &str| crate::units::def_of(&conv, u).map(|d| d.to_base(val));
            let before = base(v, unit);
            let after = match q.value() {
                Value::Number(n) => q.unit().and_then(|u| base(n.value(), u)),
                _ => None,
            };
            match (before, after) {
                (Some(b), Some(a)) if crate::units::close(a, b, 1e-9, 1e-9) => {
                    ctx.count("offset_unit_results_denote_the_input");
                    if matches!(q.value(), Value::Number(Number::Fraction { .. })) {
                        ctx.count("offset_unit_fraction_results");
                    }
                    ctx.nontrivial_hash(crate::core::hash64(format!("{v}{unit}{op}").as_bytes()));
                }
                (b, a) => ctx.violation(&case, "caller", "offset_unit_result_denotes_another_amount", format!("{v} {unit} -> {q} ({:?}): {b:?} K before, {a:?} K after", q.value())),
            }
        }
    }
}

pub fn run(ctx: &mut Ctx) {
    offset_units(ctx);
    layered_limits(ctx);
    layered_limits_2(ctx);
    let vals = values(ctx);
    ctx.notes.insert("values".into(), vals.len().into());
    let (dens, accs, wholes): (Vec<u8>, Vec<f32>, Vec<u32>) = if ctx.is_thorough() {
        ((0..=64).collect(), vec![0.0, 1e-4, 0.01, 0.05, 0.1, 0.5, 1.0], vec![0, 1, 5, 400, u32::MAX])
    } else {
        (vec![0, 1, 2, 3, 4, 5, 8, 10, 16, 63, 64], vec![0.0, 0.05, 0.1, 1.0], vec![0, 5, u32::MAX])
    };
    ctx.notes.insert("max_den_values".into(), dens.len().into());
    ctx.exhaustive = ctx.is_thorough();
    for (i, v) in vals.iter().enumerate() {
        if !ctx.mine(i as u64) {
            continue;
        }
        for d in &dens {
            for a in &accs {
                for w in &wholes {
                    check_one(ctx, *v, *a, *d, *w);
                }
            }
        }
    }
    sequences(ctx, &vals);
    callers(ctx);
}

pub fn replay(ctx: &mut Ctx, case: &Case) {
    if case.kind == "new_approx" {
        let v = f64::from_bits(case.params["bits"].as_u64().unwrap());
        check_one(ctx, v, case.params["accuracy"].as_f64().unwrap() as f32, case.params["max_den"].as_u64().unwrap() as u8, case.params["max_whole"].as_u64().unwrap() as u32);
    } else if case.kind == "try_approx_sequence" {
        let v = f64::from_bits(case.params["bits"].as_u64().unwrap());
        sequences(ctx, &[v]);
    } else {
        ctx.nshards = 1;
        callers(ctx);
    }
}
