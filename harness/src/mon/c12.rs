//! C12 — fraction approximation never misstates a value.

use crate::core::{Case, Ctx};
use cooklang::convert::System;
use cooklang::quantity::Number;
use cooklang::{Converter, Quantity, Value};
use serde_json::json;

const DOC_DENOMS: &[u32] = &[2, 3, 4, 5, 8, 10, 16, 32, 64];

fn ulps(a: f64, b: f64) -> u64 {
    if a == b {
        return 0;
    }
    if !a.is_finite() || !b.is_finite() || (a < 0.0) != (b < 0.0) {
        return u64::MAX;
    }
    (a.to_bits() as i64 - b.to_bits() as i64).unsigned_abs()
}

pub fn judge(v: f64, acc: f32, max_den: u8, max_whole: u32, r: Option<Number>) -> Result<&'static str, (String, String)> {
    let bad = |c: &str, m: String| Err((c.to_string(), m));
    let Some(n) = r else {
        // declined: only the "integers within the limit come back as plain numbers" clause forbids it
        if v.is_finite() && v > 0.0 && v.fract() == 0.0 && v < u32::MAX as f64 && v <= max_whole as f64 {
            return bad("integer_declined", format!("integer {v} within max_whole {max_whole} was declined"));
        }
        return Ok("declined");
    };
    if !(v > 0.0) || !v.is_finite() {
        return bad("nonpositive_or_nonfinite_accepted", format!("{v} gave {n:?}"));
    }
    let back = n.value();
    if ulps(back, v) > 4 {
        return bad("value_misstated", format!("input {v:e} but result {n:?} has value {back:e}"));
    }
    match n {
        Number::Regular(x) => {
            if x != v {
                return bad("regular_value_differs", format!("{v} -> Regular({x})"));
            }
            if v.trunc() > max_whole as f64 {
                return bad("whole_above_limit", format!("{v} -> Regular with max_whole {max_whole}"));
            }
            if v.fract() >= 1e-9 {
                return bad("non_integer_as_regular", format!("{v} -> Regular"));
            }
            Ok("regular")
        }
        Number::Fraction { whole, num, den, err } => {
            let max_err = acc as f64 * v;
            if err.abs() > max_err * (1.0 + 1e-12) + f64::MIN_POSITIVE {
                return bad("error_above_accuracy", format!("{v} acc {acc}: err {err:e} > {max_err:e} in {n:?}"));
            }
            if whole > max_whole {
                return bad("whole_above_limit", format!("{v} -> {n:?} with max_whole {max_whole}"));
            }
            if num == 0 {
                if whole == 0 {
                    return bad("zero_fraction", format!("{v} -> {n:?}"));
                }
            } else {
                if !DOC_DENOMS.contains(&den) {
                    return bad("unsupported_denominator", format!("{v} -> {n:?}"));
                }
                if den > max_den as u32 {
                    return bad("denominator_above_max", format!("{v} max_den {max_den} -> {n:?}"));
                }
                if num >= den {
                    return bad("numerator_not_below_denominator", format!("{v} -> {n:?}"));
                }
            }
            // printed form
            let shown = format!("{n}");
            let want = match (whole, num) {
                (0, nn) => format!("{nn}/{den}"),
                (w, 0) => format!("{w}"),
                (w, nn) => format!("{w} {nn}/{den}"),
            };
            if shown != want {
                return bad("display_differs", format!("{n:?} prints {shown:?}, expected {want:?}"));
            }
            // and it denotes exactly that fraction
            let parsed: f64 = shown
                .split(' ')
                .map(|p| match p.split_once('/') {
                    Some((a, b)) => a.parse::<f64>().unwrap_or(f64::NAN) / b.parse::<f64>().unwrap_or(f64::NAN),
                    None => p.parse::<f64>().unwrap_or(f64::NAN),
                })
                .sum();
            let exact = whole as f64 + num as f64 / den as f64;
            if parsed != exact {
                return bad("display_not_that_fraction", format!("{shown:?} parses to {parsed}, fraction is {exact}"));
            }
            Ok(if num == 0 { "rounded_whole" } else { "fraction" })
        }
    }
}

fn values(ctx: &mut Ctx) -> Vec<f64> {
    let mut v: Vec<f64> = Vec::new();
    for k in 0..=20_000u32 {
        v.push(k as f64 / 1000.0);
    }
    let eps = [0.0, 1e-12, 1e-9, 1e-6, 1e-3];
    for q in 1..=64u32 {
        for p in 0..=(2 * q) {
            let base = p as f64 / q as f64;
            for e in eps {
                v.push(base + e);
                v.push(base - e);
            }
            v.push(f64::from_bits(base.to_bits().wrapping_add(1)));
            if base > 0.0 {
                v.push(f64::from_bits(base.to_bits() - 1));
            }
        }
    }
    for i in [1.0, 2.0, 5.0, 6.0, 399.0, 400.0, 401.0, 65535.0, 4294967294.0, 4294967295.0, 4294967296.0, 1e12] {
        for e in [0.0, 1e-11, 1e-9, 1e-4, 0.5, 0.9999] {
            v.push(i + e);
            v.push(i - e);
        }
    }
    for k in 0..=33 {
        v.push(2f64.powi(k));
        v.push(2f64.powi(-k));
    }
    v.extend([0.0, -0.0, -1.0, -0.5, f64::NAN, f64::INFINITY, f64::NEG_INFINITY, f64::MIN_POSITIVE, 1e-300, 1e300, f64::MAX]);
    let n = if ctx.is_thorough() { 100_000 } else { 20_000 };
    let mut r = crate::core::Rng::new(ctx.seed ^ 0xC12);
    for _ in 0..n {
        v.push(r.log_uniform(1e-12, 1e10));
    }
    v
}

pub fn check_one(ctx: &mut Ctx, v: f64, acc: f32, max_den: u8, max_whole: u32) {
    let case = Case::new("new_approx", format!("{v:e}"), 0, "n/a").with(json!({"bits": v.to_bits(), "accuracy": acc, "max_den": max_den, "max_whole": max_whole}));
    ctx.evals += 1;
    let r = match crate::core::guarded(|| Number::new_approx(v, acc, max_den, max_whole)) {
        Ok(r) => r,
        Err(p) => {
            ctx.panic_violation(&case, "new_approx", p);
            return;
        }
    };
    match judge(v, acc, max_den, max_whole, r) {
        Ok(kind) => {
            ctx.count(&format!("outcome:{kind}"));
            if kind != "declined" {
                ctx.nontrivial_hash(crate::core::hash64(&[&v.to_bits().to_le_bytes()[..], &[max_den], &acc.to_bits().to_le_bytes()[..], &max_whole.to_le_bytes()[..]].concat()));
                if ctx.evals % 400_000 == 1 {
                    ctx.sample(json!({"value": v, "accuracy": acc, "max_den": max_den, "max_whole": max_whole, "result": format!("{:?}", r.unwrap()), "printed": format!("{}", r.unwrap())}));
                }
            }
        }
        Err((c, m)) => ctx.violation(&case, "new_approx", &c, m),
    }
}

#[derive(serde::Deserialize, Default, Clone, Copy)]
struct FracCfg {
    enabled: Option<bool>,
    accuracy: Option<f32>,
    max_denominator: Option<u8>,
    max_whole: Option<u32>,
}

/// through the public callers with the bundled per-unit limits (read from /repo/units.toml)
fn callers(ctx: &mut Ctx) {
    let conv = Converter::bundled();
    let toml_text = std::fs::read_to_string("/repo/units.toml").unwrap_or_default();
    let doc: toml::Value = toml::from_str(&toml_text).unwrap_or(toml::Value::Table(Default::default()));
    let unit_cfg = |sym: &str| -> (u8, u32, f32) {
        let mut c = FracCfg::default();
        if let Some(u) = doc.get("fractions").and_then(|f| f.get("unit")).and_then(|u| u.get(sym)) {
            if let Ok(x) = u.clone().try_into::<FracCfg>() {
                c = x;
            }
        }
        let _ = c.enabled;
        (c.max_denominator.unwrap_or(4).clamp(1, 16), c.max_whole.unwrap_or(u32::MAX), c.accuracy.unwrap_or(0.05))
    };
    let units = ["tsp", "tbsp", "cup", "fl oz", "pint", "oz", "lb", "in", "ft", "ml", "l", "g", "kg", "cm", "F", "C", "min"];
    let mut r = crate::core::Rng::new(ctx.seed ^ 0xCA11);
    let n = ctx.budget(40_000, 2_000_000);
    for i in 0..n {
        let u = units[(i % units.len() as u64) as usize];
        let v = if i % 3 == 0 { (r.below(4000) as f64) / 16.0 } else { r.log_uniform(1e-3, 1e4) };
        for op in 0..3 {
            let mut q = Quantity::new(Value::Number(Number::Regular(v)), Some(u.to_string()));
            let case = Case::new("caller", format!("{v} {u}"), 0, "bundled").with(json!({"op": op, "bits": v.to_bits(), "unit": u}));
            ctx.evals += 1;
            let res = crate::core::guarded(|| match op {
                0 => {
                    let _ = q.convert(System::Imperial, &conv);
                }
                1 => {
                    let _ = q.fit(&conv);
                }
                _ => {
                    let _ = q.try_fraction(&conv);
                }
            });
            if let Err(p) = res {
                ctx.panic_violation(&case, "caller", p);
                continue;
            }
            if let Value::Number(Number::Fraction { whole, num, den, err }) = q.value() {
                ctx.count("caller_fraction_results");
                let sym = q.unit().unwrap_or("").to_string();
                let unit = conv.find_unit(&sym);
                let (md, mw, acc) = unit_cfg(unit.as_ref().map(|u| u.symbol()).unwrap_or(""));
                let val = q.value().clone();
                let value = match &val {
                    Value::Number(n) => n.value(),
                    _ => unreachable!(),
                };
                if *num > 0 && (*den > md as u32 || !DOC_DENOMS.contains(den) || num >= den) {
                    ctx.violation(&case, "caller", "denominator_above_unit_limit", format!("{v} {u} -> {q} ({:?}) but {sym} allows max_den {md}", q.value()));
                } else if *whole > mw {
                    ctx.violation(&case, "caller", "whole_above_unit_limit", format!("{v} {u} -> {q} ({:?}) but {sym} allows max_whole {mw}", q.value()));
                } else if err.abs() > acc as f64 * value * (1.0 + 1e-9) {
                    ctx.violation(&case, "caller", "error_above_unit_accuracy", format!("{v} {u} -> {:?}, accuracy {acc}", q.value()));
                } else {
                    ctx.nontrivial_hash(crate::core::hash64(format!("{v}{u}{op}").as_bytes()));
                }
            }
        }
    }
}

pub fn run(ctx: &mut Ctx) {
    let vals = values(ctx);
    ctx.notes.insert("values".into(), vals.len().into());
    let (dens, accs, wholes): (Vec<u8>, Vec<f32>, Vec<u32>) = if ctx.is_thorough() {
        ((0..=64).collect(), vec![0.0, 1e-4, 0.01, 0.05, 0.1, 0.5, 1.0], vec![0, 1, 5, 400, u32::MAX])
    } else {
        (vec![0, 1, 2, 3, 4, 5, 8, 10, 16, 63, 64], vec![0.0, 0.05, 0.1, 1.0], vec![0, 5, u32::MAX])
    };
    ctx.notes.insert("max_den_values".into(), dens.len().into());
    ctx.exhaustive = ctx.is_thorough();
    for (i, v) in vals.iter().enumerate() {
        if !ctx.mine(i as u64) {
            continue;
        }
        for d in &dens {
            for a in &accs {
                for w in &wholes {
                    check_one(ctx, *v, *a, *d, *w);
                }
            }
        }
    }
    callers(ctx);
}

pub fn replay(ctx: &mut Ctx, case: &Case) {
    if case.kind == "new_approx" {
        let v = f64::from_bits(case.params["bits"].as_u64().unwrap());
        check_one(ctx, v, case.params["accuracy"].as_f64().unwrap() as f32, case.params["max_den"].as_u64().unwrap() as u8, case.params["max_whole"].as_u64().unwrap() as u32);
    } else {
        ctx.nshards = 1;
        callers(ctx);
    }
}
