//! C05 — no recipe content is silently dropped: with an error-free event stream every
//! alphanumeric char outside comments lies in the span of some emitted event.

use crate::core::{Case, Ctx};
use crate::mon::c04::event_span;
use crate::workload::{self, G2};
use cooklang::parser::{Event, PullParser};
use cooklang::Extensions;

/// Independent reading of the documented syntax: where the cooklang body starts
/// (front matter only at the very top) and which bytes are inside comments.
pub fn body_start(input: &str) -> usize {
    let mut lines = input.split_inclusive('\n');
    let Some(first) = lines.next() else { return 0 };
    if first.trim_end() != "---" {
        return 0;
    }
    let mut off = first.len();
    for l in lines {
        off += l.len();
        if l.trim_end() == "---" {
            return off;
        }
    }
    0
}

/// positions (byte offsets) of alphanumeric chars outside comments, scanning from `from`
pub fn content_positions(input: &str, from: usize) -> Vec<usize> {
    let mut out = Vec::new();
    let b = input.as_bytes();
    let mut it = input[from..].char_indices().map(|(i, c)| (i + from, c)).peekable();
    while let Some((i, c)) = it.next() {
        match c {
            '\\' => {
                // escape: the next char is literal content
                if let Some((j, d)) = it.next() {
                    if d.is_alphanumeric() {
                        out.push(j);
                    }
                }
            }
            '-' if b.get(i + 1) == Some(&b'-') => {
                // line comment to end of line
                while let Some((_, d)) = it.peek() {
                    if *d == '\n' {
                        break;
                    }
                    it.next();
                }
            }
            '[' if b.get(i + 1) == Some(&b'-') => {
                it.next(); // '-'
                let mut prev_dash = false;
                for (_, d) in it.by_ref() {
                    if prev_dash && d == ']' {
                        break;
                    }
                    prev_dash = d == '-';
                }
            }
            c if c.is_alphanumeric() => out.push(i),
            _ => {}
        }
    }
    out
}

pub fn check_case(ctx: &mut Ctx, case: &Case) {
    ctx.begin(case);
    let input = case.input.as_str();
    let ext = Extensions::from_bits_retain(case.ext);
    let Ok(events) = crate::core::guarded(|| PullParser::new(input, ext).collect::<Vec<Event>>()) else {
        ctx.count("panic_in_events(C03)");
        return;
    };
    if events.iter().any(|e| matches!(e, Event::Error(_))) {
        ctx.count("streams_with_error_skipped");
        return;
    }
    ctx.count("streams_judged");
    let mut spans: Vec<(usize, usize)> = events.iter().filter_map(event_span).map(|s| (s.start(), s.end())).collect();
    spans.sort_unstable();
    let positions = content_positions(input, body_start(input));
    if !positions.is_empty() {
        ctx.nontrivial(case);
    }
    ctx.count_n("content_chars_checked", positions.len() as u64);
    let fm_start = events.iter().find_map(|e| match e {
        Event::YAMLFrontMatter(t) => Some(t.span().start()),
        _ => None,
    });
    let covered = |p: usize| spans.iter().any(|(a, b)| *a <= p && p < *b);
    for p in positions {
        if covered(p) {
            continue;
        }
        let line_start = input[..p].rfind('\n').map(|i| i + 1).unwrap_or(0);
        let line = input[line_start..].lines().next().unwrap_or("");
        let cause = if fm_start.is_some_and(|f| f > p) {
            "before_non_leading_front_matter_fence"
        } else if line.trim_start().starts_with('=') {
            "inside_section_line"
        } else if line.trim_start().starts_with(">>") {
            "inside_metadata_line"
        } else {
            "other"
        };
        let ch = input[p..].chars().next().unwrap();
        ctx.violation(case, "coverage", cause, format!("char {ch:?} at byte {p} (line {line:?}) is outside comments but in no event span; event spans {spans:?}"));
        break;
    }
    if ctx.evals % 20000 == 1 {
        ctx.sample(serde_json::json!({"input": case.input, "ext": case.ext, "events": events.len(), "event_spans": spans}));
    }
}

const ALNUM_RICH: &[&str] = &[
    "a", "b1", "é", "7", "@", "#", "~", "{", "}", "(", ")", "%", "|", "=", "&", "-", ":", ">", ">>", "--", "[-", "-]", "---", "\\",
    " ", "\n", "\r\n", ".", "1", "[mode]", "x: y", "?", "+", "/", "\0", "—", "…",
];

pub fn fence_family() -> Vec<String> {
    let mut base = Vec::new();
    let lines = ["step one @a{1}", "title: x", "author: grandma", ">> k: v", "= sec", "> para", "", "servings: 4"];
    for fence in ["---", "--- ", "---\r", "---\t", " ---", "----", "-- -"] {
        for n in 1..=3usize {
            // choose positions of n fences among 0..=4 line slots
            for mask in 0u32..32 {
                if mask.count_ones() as usize != n {
                    continue;
                }
                let mut s = String::new();
                let mut li = 0;
                for slot in 0..5 {
                    if mask & (1 << slot) != 0 {
                        s.push_str(fence);
                        s.push('\n');
                    }
                    s.push_str(lines[li % lines.len()]);
                    s.push('\n');
                    li += 1 + slot;
                }
                base.push(s);
            }
        }
    }
    // well-formed front matters of 0-4 YAML lines followed by a body, and one whose closing fence ends the input
    for n in 0..=4usize {
        let yaml: String = ["title: x\n", "servings: 4\n", "author: grandma\n", "tags: [a, b1]\n"][..n].concat();
        base.push(format!("---\n{yaml}---\nstep one @a{{1}}\n\n>> k: v\nmore text\n"));
        base.push(format!("---\n{yaml}---\n"));
        base.push(format!("---\n{yaml}---\n\n= sec\n\n> para\n"));
    }
    // YAML text that begins or ends with blank lines, or is indented as a whole
    for yaml in ["\ntitle: x\nservings: 4\n", "\n\n  \ntitle: x7\n", "  title: x\n  servings: 4\n", "title: x9\n\n\n", "# comment 5\ntitle: x\n", " \t\ntags: [a, b1]\n \n", "\r\ntitle: x3\r\n", "\u{a0}\ntitle: x8\n"] {
        base.push(format!("---\n{yaml}---\nBoil the @water{{1%l}}.\n"));
        base.push(format!("---\n{yaml}---\n"));
        base.push(format!("---\n{yaml}---"));
    }
    // lines made of comments and text before a fence pair
    for head in ["[- v2 -] Pancakes [- draft -]", "[- a -] b7", "-- c\nx9 [- d -]", "[- a -]\n[- b -] y3 [- c -]", "  [- a -] z5 [- b -]  "] {
        base.push(format!("{head}\n---\nservings: 2\n---\nMix @flour{{200%g}} and @milk{{3%dl}}.\n"));
        base.push(format!("{head}\r\n---\r\ntitle: x1\r\n---\r\n"));
    }
    // a first line that begins with `---` without being a fence (a rule, a comment), content, then a real fence pair
    for head in ["---- Pancakes ----", "--- a comment", "----", "---x", "--- ---", "---:"] {
        for yaml in ["", "note: serve warm\n"] {
            base.push(format!("{head}\nMix @flour{{200%g}} and milk1.\n---\n{yaml}---\nFry in a #pan for ~{{2%min}}.\n"));
            base.push(format!("{head}\n\nstep two\n\n---\n{yaml}---\n"));
            base.push(format!("\n{head}\nabc\n---\n---\nxyz\n"));
        }
    }
    // spellings of each document: as is; white-space-only lines before it; CRLF throughout; no final newline
    let mut v = Vec::new();
    for s in base {
        let crlf = s.replace("\r\n", "\n").replace('\n', "\r\n");
        for prefix in ["\n", "  \n", "\r\n", "\n\t\n\n"] {
            v.push(format!("{prefix}{s}"));
        }
        v.push(format!("\u{feff}{s}"));
        v.push(format!("\r\n{crlf}"));
        v.push(s.trim_end_matches('\n').to_string());
        v.push(crlf.trim_end_matches("\r\n").to_string());
        v.push(crlf);
        v.push(s);
    }
    v
}

pub fn run(ctx: &mut Ctx) {
    let fam = fence_family();
    ctx.notes.insert("fence_family".into(), fam.len().into());
    let mut k = 0u64;
    for f in &fam {
        for e in [Extensions::empty().bits(), Extensions::all().bits()] {
            if ctx.mine(k) {
                check_case(ctx, &Case::new("fence", f.as_str(), e, "n/a"));
                ctx.count("inputs_fence_family");
            }
            k += 1;
        }
    }
    // the same text several times in a row inside one block (events that compare equal ignoring their position)
    if ctx.shard == 0 {
        for doc in [
            "> stir and wait\n> stir and wait\n> stir and wait\n\nServe.\n", "mail a @ b @ b @ b\n", "a @ a @ a @ a", "x # x # x # x\n\nx # x", "wait ~ 5 ~ 5 ~ 5 ~ 5",
            "> same\n> same\n\n> same\n> same\n", "same\n\nsame\n\nsame\n", "= s\n\n= s\n\n= s\nx", ">> k: v\n>> k: v\n>> k: v\nstep", "@a{1} @a{1} @a{1} #a #a ~a{1%min} ~a{1%min}",
            "Heat the #pan{}(cast iron) and the #pot(large) well.\n", "~t{1%min}(stirring often) and ~{2%min}(x9) go", "@a{}(n1) #b{}(n2) #c(n3) @d(n4)",
        ] {
            for e in [Extensions::empty().bits(), Extensions::all().bits(), Extensions::COMPAT.bits()] {
                check_case(ctx, &Case::new("repeated", doc, e, "n/a"));
                ctx.count("inputs_repeated_pieces");
            }
        }
    }
    // single tokens longer than 64 KiB (comment, word, blanks) with content after them
    if ctx.shard == 0 {
        let long = "A".repeat(70_000);
        for doc in [
            format!("Mix the @flour{{200%g}} first.\n\n[- {long} -]\n\nThen bake in the #oven with the @butter until golden.\n"),
            format!("first -- {long}\nThen bake in the #oven until golden 7.\n"),
            format!("{long} then bake it 7.\n\nAnd serve 8.\n"),
            format!("a{}b and c 9\n\nend 1\n", " ".repeat(70_000)),
        ] {
            for e in [Extensions::empty().bits(), Extensions::all().bits()] {
                check_case(ctx, &Case::new("long_token", doc.as_str(), e, "n/a"));
                ctx.count("inputs_long_tokens");
            }
        }
    }
    let p = G2 {
        exh_quick: 3,
        exh_thorough: 4,
        random_quick: 400_000,
        random_thorough: 60_000_000,
        extra_subsets: 1,
        both_converters: false,
        alphabet: ALNUM_RICH,
    };
    workload::g2(ctx, &p, "g2", |ctx, case| check_case(ctx, case));
}

pub fn replay(ctx: &mut Ctx, case: &Case) {
    check_case(ctx, case);
}
