//! C18 — parsing is deterministic, stateless across calls and thread-safe.
//!
//! Every call is logged at the client boundary as (process, thread, seq, input-id, config,
//! image-hash); the checker requires one hash per (input-id, config) across all positions,
//! threads and — through the driver — processes.

use crate::core::{hash64, Case, Ctx, Rng};
use crate::gen::alphabet::SEEDS;
use crate::gen::recipe::{self as g, feat, GenOpts};
use crate::mon::c04::DIAG_SEEDS;
use cooklang::convert::System;
use cooklang::{Converter, CooklangParser, Extensions};
use serde_json::json;
use std::collections::BTreeMap;
use std::sync::{Arc, Barrier, Mutex};

pub fn image_of(parser: &CooklangParser, input: &str) -> String {
    image_in_order(parser, input, false)
}

/// everything a user sees of the report: the rendered text (it includes the chain of source errors, which the fields
/// compared above do not)
fn rendered(report: &cooklang::error::SourceReport, input: &str) -> String {
    let mut buf = Vec::new();
    match report.write("recipe.cook", input, false, &mut buf) {
        Ok(()) => String::from_utf8_lossy(&buf).into_owned(),
        Err(e) => format!("<report not written: {e}>"),
    }
}

/// the same image whichever of the two entry points is called first
pub fn image_in_order(parser: &CooklangParser, input: &str, metadata_first: bool) -> String {
    let early = if metadata_first { Some(parser.parse_metadata(input)) } else { None };
    let r = parser.parse(input);
    let mut s = String::new();
    for d in r.report().iter() {
        s.push_str(&format!("{:?}|{:?}|{}|{:?}|{:?}\n", d.severity, d.stage, d.message, d.labels, d.hints));
    }
    s.push_str(&format!("valid={}\n", r.is_valid()));
    s.push_str(&rendered(r.report(), input));
    if let Some(o) = r.output() {
        s.push_str(&serde_json::to_string(o).unwrap_or_else(|e| format!("<unserializable: {e}>")));
    }
    let m = match early {
        Some(m) => m,
        None => parser.parse_metadata(input),
    };
    s.push_str("\nMETA\n");
    for d in m.report().iter() {
        s.push_str(&format!("{:?}|{:?}|{}|{:?}\n", d.severity, d.stage, d.message, d.labels));
    }
    if let Some(o) = m.output() {
        s.push_str(&serde_json::to_string(o).unwrap_or_default());
    }
    s
}

/// A parser for configuration `ci` made the way an application would: through the convenience constructors where one
/// exists for that configuration (they must mean the same as `new` with the same arguments).
fn constructed(ci: usize, cfgs: &[(Extensions, Converter, &'static str)], how: usize) -> CooklangParser {
    match (cfgs[ci].2, how % 3) {
        ("all/bundled", 0) => CooklangParser::extended(),
        ("all/bundled", 1) => CooklangParser::default(),
        ("none/empty", 0) => CooklangParser::canonical(),
        _ => CooklangParser::new(cfgs[ci].0, cfgs[ci].1.clone()),
    }
}

/// parse options of a call: 0 none; 1 a metadata validator that drops every entry and disables the standard checks;
/// 2 a validator that reports an error with a hint for every entry; 3 a recipe-reference checker that warns.
/// What a call with one kind of options does must not leak into calls with another kind (or none).
fn options(opt: usize) -> cooklang::analysis::ParseOptions<'static> {
    use cooklang::analysis::{CheckResult, ParseOptions};
    match opt {
        1 => ParseOptions {
            recipe_ref_check: None,
            metadata_validator: Some(Box::new(|_k, _v, o| {
                o.include(false);
                o.run_std_checks(false);
                CheckResult::Ok
            })),
        },
        2 => ParseOptions { recipe_ref_check: None, metadata_validator: Some(Box::new(|_k, _v, _o| CheckResult::Error(vec!["refused by the validator".into()]))) },
        3 => ParseOptions { recipe_ref_check: Some(Box::new(|_name| CheckResult::Warning(vec!["not found".into()]))), metadata_validator: None },
        // the same names judged differently by the checkers of different calls (each application knows its own folder)
        4 => ParseOptions { recipe_ref_check: Some(Box::new(|_name| CheckResult::Ok)), metadata_validator: Some(Box::new(|_k, _v, _o| CheckResult::Ok)) },
        5 => ParseOptions { recipe_ref_check: Some(Box::new(|_name| CheckResult::Error(vec!["no such recipe here".into()]))), metadata_validator: Some(Box::new(|_k, _v, _o| CheckResult::Warning(vec!["noted".into()]))) },
        _ => ParseOptions::default(),
    }
}

pub fn image_with(parser: &CooklangParser, input: &str, opt: usize) -> String {
    if opt == 0 {
        return image_of(parser, input);
    }
    let r = parser.parse_with_options(input, options(opt));
    let mut s = String::new();
    for d in r.report().iter() {
        s.push_str(&format!("{:?}|{:?}|{}|{:?}|{:?}\n", d.severity, d.stage, d.message, d.labels, d.hints));
    }
    s.push_str(&format!("valid={}\n", r.is_valid()));
    s.push_str(&rendered(r.report(), input));
    if let Some(o) = r.output() {
        s.push_str(&serde_json::to_string(o).unwrap_or_else(|e| format!("<unserializable: {e}>")));
    }
    let m = parser.parse_metadata_with_options(input, options(opt));
    s.push_str("\nMETA\n");
    for d in m.report().iter() {
        s.push_str(&format!("{:?}|{:?}|{}|{:?}\n", d.severity, d.stage, d.message, d.labels));
    }
    if let Some(o) = m.output() {
        s.push_str(&serde_json::to_string(o).unwrap_or_default());
    }
    s
}

/// A subscriber that enables every level and discards everything: what the library logs (and whether anybody listens)
/// is an ambient setting, not an input of the parse.
struct AllLevels;
impl tracing::Subscriber for AllLevels {
    fn enabled(&self, _: &tracing::Metadata<'_>) -> bool {
        true
    }
    fn new_span(&self, _: &tracing::span::Attributes<'_>) -> tracing::span::Id {
        tracing::span::Id::from_u64(1)
    }
    fn record(&self, _: &tracing::span::Id, _: &tracing::span::Record<'_>) {}
    fn record_follows_from(&self, _: &tracing::span::Id, _: &tracing::span::Id) {}
    fn event(&self, _: &tracing::Event<'_>) {}
    fn enter(&self, _: &tracing::span::Id) {}
    fn exit(&self, _: &tracing::span::Id) {}
}

/// the fixed pool: identical in every process so that hashes are comparable across processes
pub fn pool() -> Vec<String> {
    let mut v: Vec<String> = SEEDS.iter().map(|s| s.to_string()).collect();
    v.extend(DIAG_SEEDS.iter().map(|s| s.to_string()));
    v.push(">> [mode]: steps\n@a\n".into());
    v.push(">> [mode]: components\n@a{1}\n".into());
    v.push(">> [duplicate]: ref\n@a{1} @a{2}\n".into());
    v.push(">> [mode]: text\nsome @text{} here\n".into());
    v.push("@a{1} @a{2}\n".into());
    v.push("---\ntitle: x\nservings: 3\nb: 1\na: 2\n---\n@z{1%kg} @y{2%g} @x{3%lb}\n".into());
    v.push(">> z: 1\n>> y: 2\n>> x: 3\n>> servings: 2|4\nstep".into());
    // diagnostics with several labels / hints, whose order must not depend on any per-call hash seed
    for s in [
        ">> prep time: 10 min\n>> cook time: 25 min\n>> time: 45 min\n\nMix @flour{200%g}.\n",
        ">> time: 45 min\n>> cook time: 25 min\n>> prep time: 10 min\nx",
        "---\nprep time: 10 min\ncook time: 25 min\ntime: 45 min\n---\nx",
        "@a{1%kg} @&a{some} @&a{2%l} @&a{3} @&a{1%pinch} @&a{4%oz}",
        "#p{big} #&p{2} #&p{1}",
        "@a{} @&+-?a{} @b{}(n) @&b{}(m) @&-b{}",
        ">> servings: 2|2|3|3\n>> tags: a, a, b, b\n>> locale: xx_YYY\n>> author: <x>\n>> source: a <b>",
        ">> [mode]: components\n@a{1} @b{2} @c{3}\n>> [mode]: steps\n@&a{1} @&b{2} @&c{3} @d @e @f",
        "@a{1/0} @b{%g} @{} #{} ~{} @c{99999999999} @&(0)d{} @&(~9)e{}",
        "= a = b\n>> k\n>> : v\n>> k2:\n@ x # y ~ z",
        "Add @++??salt{1%pinch} and @&&--x{} and #??++y{} and mix.",
        "@a{1/0} @b{2 1/0} @c{99999999999/2} then @d{1/2%cup} and @e{1 1/2} and @f{3/4%g}",
        "Add the @{} to the bowl.\n\nWait ~{} and then add @water{1/0%l}.\n",
        "@a{1%kg} @&a{2%l} @&a{3%cups} @&a{100%g} @&a{1%pinch} @&a{2%°C}",
        // refused values that are made of several text fragments (a comment or an escape inside): anything computed from
        // the memory address of a temporary copy differs from process to process
        ">> servings: two [- or three -] people\n\nMix @flour{200%g} and @water{100%ml}.\n",
        ">> time: a \\> while [- c -] longer\n>> locale: e [- c -] n\n>> [mode]: bo [- c -] gus\n>> [duplicate]: n\\ew\nstep",
        "---\ntime: soon\nservings: a|b\n---\n>> [mode]: s [- x -] t\nstep",
        // a dangling reference next to several equally close names; text in components mode; hints
        "Dice the @tomato{2} and the @potato{3}.\n\nFry the @&totato{} until golden.\n",
        ">> [mode]: components\n@flour{500%g} and @water{300%ml}\n>> [mode]: default\n\nMix the @&flour{} with the @&water{}.\n",
        "@a{} @b{} @c{} @&d{} @&e{} @&f{}",
    ] {
        v.push(s.to_string());
    }
    // time values that are not in the compact form (they go through the converter's time units)
    for s in ["---\ntime: 1 h 30 min\n---\nx", "---\ntime: 1 hora 30 minutos\nprep time: 10 mnt\n---\nx", ">> cook time: 2 horas\n>> prep time: 90 min\nx", "---\ntime: 90 m\n---\nx"] {
        v.push(s.to_string());
    }
    // units and numbers in text, spelled in other cases: probes for caches keyed on a normalised word
    for s in [
        "Add 1 Tbsp of @butter{}, 200 ML of @milk{} and wait 10 Min before serving.",
        "Heat 2 tbsp of oil in a #pan and fry the @onion{1} for 5 min until soft.",
        "Bake at 180 °c or 350 °F for 1 H, then 2 KG and 3 Kg and 4 kG and 5 kg.",
        "~{5%MIN} ~{5%Min} ~{5%min} @a{1%KG} @&a{1%kg} @&a{1%Kg}",
    ] {
        v.push(s.to_string());
    }
    let mut r = Rng::new(0xC18);
    for i in 0..24 {
        let opts = match i % 3 {
            0 => GenOpts::extended(),
            1 => GenOpts::canonical(),
            _ => GenOpts::extended_mixed(),
        };
        let spec = g::gen_spec(&mut r, &opts);
        v.push(g::spell(&spec, i, feat::ALL, 2).text);
    }
    // every input also in upper case, lower case and with the case of each letter flipped: inputs that collide
    // under case folding (or differ only there) are what a stale cache, memo or interner would confuse
    let base = v.clone();
    for s in &base {
        let flipped: String = s.chars().map(|c| if c.is_lowercase() { c.to_uppercase().next().unwrap_or(c) } else { c.to_lowercase().next().unwrap_or(c) }).collect();
        for t in [s.to_uppercase(), s.to_lowercase(), flipped] {
            if t != *s {
                v.push(t);
            }
        }
    }
    // every construct of the diagnostics catalogue (C07): each diagnostic text, label and hint the library can build is
    // in some image, so anything built once per process and reused (a cached message, hint or table) is compared across
    // histories that reached it in different orders
    for e in crate::mon::c07::CATALOGUE {
        let (t, _, _) = crate::mon::c07::unmark(e.template);
        v.push(t);
    }
    for s in ["---\ntime: 1 h 30 m\n---\nCook.\n", ">> prep time: 25 mins\n>> cook time: 2 hrs\nx", "---\nduration: 1 h 30 m\ntime: 90 mins\n---\n", ">> time: 3 m\nBoil."] {
        v.push(s.to_string());
    }
    // referenced recipes (what a recipe_ref_check is asked about); several repeated servings; characters whose code
    // points agree in their low 16 bits (a word character / punctuation in one plane, not in the other)
    for s in [
        "Press the @@dough{1} in the tray.", "Roll out the @@dough{1} and add @@tomato sauce{100%g}.", "Serve with @./sides/rice{} and @@dough{}.",
        "---\nservings: 2|4|2|4\n---\nMix @flour{200%g}.", ">> yield: 3|5|7|3|5|7\nx", "---\nserves: [1, 2, 3, 1, 2, 3]\ntags: [b, a, b, a]\n---\n",
        "Das »@Mehl« in eine Schüssel sieben.", "Turn the tray x↫ and wait.", "Preheat the oven\u{F00AB} to 180 C.", "Nimm @Salz⑳ und @Öl\u{12473} dazu.", "Add @flour\u{1F9C2} then @salt\u{F9C2} and @x\u{2F9C2}.",
        "Mix @a\u{10FFFF} #b\u{FFFF} ~c\u{E000}{1%min} and @d\u{1E000}.",
    ] {
        v.push(s.to_string());
    }
    for s in [
        "Deglaze with 2 fl oz of rum, then add 150 ml of stock and simmer.", "Boil 1 l of water for 10 minutes.", "Add 3 fluid ounces of cream and 2 fl. oz. of milk at 70 F.", "Use 5 big handfuls and 2 large eggs, 1 c of milk.",
        ">> source: grandma\n>> tags: soup\n>> servings: 2\n>> source: the internet\n>> tags: soup, winter\n>> servings: 4\nSimmer.\n",
        ">> a: 1\n>> b: 2\n>> c: 3\n>> a: 4\n>> b: 5\n>> c: 6\n>> a: 7\nx", "---\na: 1\nb: 2\n---\n>> a: 3\n>> b: 4\n>> a: 5\n>> b: 6\n",
        "Serve with @./seeded sauces/tomato sauce{300%ml} and @parmesan.", "Use @../basics/stock{1%l} and @./x{}.",
    ] {
        v.push(s.to_string());
    }
    for s in [
        // parser-stage warnings below a front matter (many of them over a history)
        "---\ntitle: Soup\nservings: 2\n---\n\nAdd @salt{1%} and @pepper{2%} to the #pot{1%}.\n\nSimmer for ~x{10%min}(n) @ y.\n", "---\na: 1\n---\n= s = t\n>> k\n@a{1%} ~t{1%s}(n)\n",
        // the same two units met in both orders
        "Warm the @milk{1%cup} in a pan.\n\nWhisk in the rest of the @&milk{100%g}.\n", "Weigh the @milk{100%g} first.\n\nLater add another @&milk{1%cup}.\n", "@a{1%l} @&a{1%oz} @b{1%oz} @&b{1%l} @c{1%min} @&c{1%kg}",
        // [unit-heavy]: marker word inside a comment, see the threaded rounds
        "---\nprep time: 1 hour 20 minutes 30 seconds\ncook time: 2 hours 45 minutes 15 seconds\ntime: 3 h 10 m\n---\n[- [unit-heavy] -] Rest.\n",
        ">> time: 1 d 2 h 3 min 4 s\n>> prep time: 90 minutes\n[- [unit-heavy] -] x",
        "[- [unit-heavy] -] Roll the @dough{1%m} long and rest it ~{5%m}. Bake for 10 Min, then add the @&dough{2%min}.\n",
        "[- [unit-heavy] -] Heat 2 L of water to 90 C for ~{3%H}, add 5 M of string and @salt{1%S} then @&salt{1%s}.",
        "[- [unit-heavy] -] ~{10%minutes} ~{1%hour} ~{2%d} ~{30%sec} and 5 min, 2 h, 1 d of 3 hours.",
        "---\ntime:\n  prep: 1 hour 5 minutes\n  cook: 2 hours 30 minutes\n---\n[- [unit-heavy] -] ~{5%m} and 10 m of @rope{2%m}.",
    ] {
        v.push(s.to_string());
    }
    for s in [
        "Warm @milk{2%fluid ounces} and later add @&milk{1%cup}.", "Calentar @leche{2%onzas líquidas} y luego @&leche{1%taza}, esperar ~{5%minutos}.", "Añadir 3 onzas líquidas de leche y 2 cuartos de agua.",
        "---\ntitle: Soup\n---\nBoil the @water{1%l} and waits.\n", "---\ntitle: Tea!\nserves: 2\n---\nBoil the @water{1%l}.\n", "---\nprep time: 10 min\ncook time: 1 h\ntime: 70 min\ntitle: Stew\n---\n\nCook the @beef{500%g} slowly.\n",
    ] {
        v.push(s.to_string());
    }
    for s in ["Heat the #&pan{} first.", "Use the #&pot{} and the @&flour{} again.", "Add @&flour{} to the #&bowl{}.", ">> [mode]: steps\nUse #pan and @salt here.\n", ">> [duplicate]: ref\n#&lid{} then ~&rest{5%min}"] {
        v.push(s.to_string());
    }
    v.sort();
    v.dedup();
    v
}

struct Log {
    /// (input id, config id) -> hash -> occurrences
    seen: BTreeMap<(usize, usize), BTreeMap<u64, u64>>,
    calls: u64,
}

impl Log {
    fn record(&mut self, input: usize, cfg: usize, h: u64) {
        *self.seen.entry((input, cfg)).or_default().entry(h).or_insert(0) += 1;
        self.calls += 1;
    }
}

fn spanish_converter() -> Converter {
    std::fs::read_to_string("/repo/units/spanish.toml")
        .ok()
        .and_then(|t| toml::from_str::<cooklang::convert::UnitsFile>(&t).ok())
        .and_then(|f| Converter::builder().with_units_file(cooklang::convert::UnitsFile::bundled()).ok()?.with_units_file(f).ok()?.finish().ok())
        .unwrap_or_else(Converter::bundled)
}

fn configs() -> Vec<(Extensions, Converter, &'static str)> {
    vec![
        (Extensions::all(), Converter::bundled(), "all/bundled"),
        (Extensions::empty(), Converter::empty(), "none/empty"),
        (Extensions::COMPAT, Converter::bundled(), "compat/bundled"),
        // a converter whose time units have other names and no `min`/`minute`/`m`: what one parser learns about units
        // must not reach a parser that was built with other units
        (Extensions::all(), crate::mon::c13::renamed_converter(false).0, "all/renamed_time_units"),
        // every extension with a converter that knows no unit at all: what the unit-aware scans learn from one
        // converter must not reach a parser built with another
        (Extensions::all(), Converter::empty(), "all/empty"),
        // the shipped translation layer on the bundled units: longer unit names than the bundled converter knows
        (Extensions::all(), spanish_converter(), "all/bundled+spanish"),
    ]
}

/// one history over ALL parsers of the process, interleaved call by call (state that is global to the process or the
/// thread — a static, a thread-local — shows as a result that depends on which parser was used before)
fn sequential(ctx: &mut Ctx, pool: &[String], log: &mut Log, calls: usize) {
    let cfgs = configs();
    let parsers: Vec<CooklangParser> = cfgs.iter().map(|(e, c, _)| CooklangParser::new(*e, c.clone())).collect();
    let mut r = Rng::new(ctx.seed ^ ((ctx.shard as u64) << 20));
    // a directory in which every recipe the pool refers to by path exists as a file: parsing from inside it (another
    // current directory, other files on disk) is the same parse
    let here = std::env::current_dir().ok();
    let elsewhere = std::env::temp_dir().join(format!("vmon-c18-{}-{}", std::process::id(), ctx.shard));
    let mut files_made = 0;
    for text in pool {
        for (at, _) in text.match_indices("@.") {
            let rest = &text[at + 1..];
            let end = rest.find(['{', '\n']).unwrap_or(rest.len());
            let rel = rest[..end].trim();
            if rel.len() < 3 || rel.contains('\\') || rel.contains("..") && rel.matches("../").count() > 1 {
                continue;
            }
            // `../x` is created relative to a sub directory in which the parse then runs
            let base = elsewhere.join("cwd");
            let path = base.join(format!("{rel}.cook"));
            if let Some(parent) = path.parent() {
                if std::fs::create_dir_all(parent).is_ok() && std::fs::write(&path, "Boil.\n").is_ok() {
                    files_made += 1;
                }
            }
        }
    }
    let elsewhere_cwd = elsewhere.join("cwd");
    ctx.count_n("referenced_recipe_files_created", files_made);
    // the order in which the parsers are first used differs from process to process
    let mut k = 0usize;
    for _ in 0..calls * cfgs.len() {
        k += 1;
        let ci = r.below(cfgs.len());
        let parser = &parsers[ci];
        let i = r.below(pool.len());
        // one call in three goes through parse_with_options / parse_metadata_with_options
        let opt = if k % 3 == 1 { 1 + r.below(5) } else { 0 };
        // one call in eight runs with a listener for every tracing level installed on this thread
        let listened = k % 8 == 5;
        // one call in nine runs from inside the other directory
        let moved = k % 9 == 4 && files_made > 0 && here.is_some() && std::env::set_current_dir(&elsewhere_cwd).is_ok();
        if moved {
            ctx.count("calls_from_another_current_directory");
        }
        let res = crate::core::guarded(|| {
            let img = if listened { tracing::subscriber::with_default(AllLevels, || image_with(parser, &pool[i], opt)) } else { image_with(parser, &pool[i], opt) };
            // interleave other operations on the same parser between parses
            if k % 3 == 0 {
                if let Some(rec) = parser.parse(&pool[(i + 1) % pool.len()]).into_output() {
                    let mut s = rec.scale(2.0, parser.converter());
                    let _ = s.convert(System::Imperial, parser.converter());
                    let _ = s.group_ingredients(parser.converter());
                }
            }
            img
        });
        if moved {
            if let Some(h) = &here {
                let _ = std::env::set_current_dir(h);
            }
        }
        match res {
            Ok(img) => {
                log.record(i, ci + 10 * opt, hash64(img.as_bytes()));
                if opt > 0 {
                    ctx.count("calls_with_parse_options");
                }
                if listened {
                    ctx.count("calls_with_tracing_listener");
                }
            }
            Err(_) => ctx.count("panic_in_parse(C03)"),
        }
        if k % 50 == 0 {
            // a fresh parser must agree with the reused one
            // (made through the convenience constructors where they exist, first used through either entry point)
            let fresh = constructed(ci, &cfgs, k / 50);
            let metadata_first = (k / 50) % 2 == 1;
            if let Ok(img) = crate::core::guarded(|| image_in_order(&fresh, &pool[i], metadata_first)) {
                log.record(i, ci, hash64(img.as_bytes()));
                ctx.count("fresh_parser_comparisons");
                if metadata_first {
                    ctx.count("fresh_parser_first_used_for_metadata");
                }
            }
        }
        if k % 61 == 9 {
            // a run of parses of one kind in a row, nothing else in between (a folder of recipes that all start with a front
            // matter): what the first of them returns, the twelfth returns
            let fm: Vec<usize> = pool.iter().enumerate().filter(|(_, t)| t.starts_with("---")).map(|(j, _)| j).collect();
            if !fm.is_empty() {
                let j = fm[r.below(fm.len())];
                let mut seen: Vec<u64> = Vec::new();
                for _ in 0..12 {
                    if let Ok(img) = crate::core::guarded(|| image_of(parser, &pool[j])) {
                        let h = hash64(img.as_bytes());
                        log.record(j, ci, h);
                        seen.push(h);
                    }
                }
                ctx.count("runs_of_front_matter_recipes");
                let _ = seen;
            }
        }
        if k % 5 == 2 {
            // the same buffer edited in place between two parses: same address, same length, other text. The result for the
            // edited text must be the one a copy of it at another address gets.
            let mut buf = pool[i].clone();
            let edit = buf.char_indices().find_map(|(p, c)| match c {
                '@' => Some((p, "#")),
                '#' => Some((p, "@")),
                '{' => Some((p, "(")),
                '~' => Some((p, "a")),
                '>' => Some((p, "x")),
                '=' => Some((p, "e")),
                _ => None,
            });
            if let Some((pos, with)) = edit {
                let res = crate::core::guarded(|| {
                    let _ = parser.parse(&buf);
                    buf.replace_range(pos..pos + 1, with);
                    let in_place = image_of(parser, &buf);
                    let copy = format!("{}", buf.as_str());
                    let elsewhere = image_of(parser, &copy);
                    (in_place, elsewhere)
                });
                if let Ok((a, b)) = res {
                    ctx.count("in_place_edits_compared");
                    if a != b {
                        let case = Case::new("history", buf.as_str(), cfgs[ci].0.bits(), cfgs[ci].2).with(json!({"edited_at": pos, "original": pool[i]}));
                        ctx.violation(&case, "history", "result_depends_on_text_previously_at_the_same_address", format!("after parsing {:?} from a buffer and editing byte {pos} in place, the buffer parses differently from a copy of it", pool[i]));
                    }
                }
            }
        }
        if k % 7 == 3 {
            // a buffer that is cleared and refilled with ANOTHER text of the same length (same address, same length): the
            // refill parses like a copy of it elsewhere. The other text is padded with trailing blanks up to the length.
            let j = r.below(pool.len());
            let (a, b) = (&pool[i], &pool[j]);
            if b.len() <= a.len() && a != b && !b.ends_with('\\') {
                let padded = format!("{b}{}", " ".repeat(a.len() - b.len()));
                let res = crate::core::guarded(|| {
                    let mut buf = String::with_capacity(a.len() + 8);
                    buf.push_str(a);
                    let _ = parser.parse(&buf);
                    let _ = parser.parse_metadata(&buf);
                    buf.clear();
                    buf.push_str(&padded);
                    let refilled = image_of(parser, &buf);
                    let copy = format!("{}", padded.as_str());
                    let elsewhere = image_of(parser, &copy);
                    (refilled, elsewhere)
                });
                if let Ok((x, y)) = res {
                    ctx.count("refilled_buffers_compared");
                    if x != y {
                        let case = Case::new("history", padded.as_str(), cfgs[ci].0.bits(), cfgs[ci].2).with(json!({"previous_text_in_the_buffer": a}));
                        ctx.violation(&case, "history", "result_depends_on_text_previously_at_the_same_address", format!("after parsing {a:?} from a buffer and refilling it with this text of the same length, the buffer parses differently from a copy of it"));
                    }
                }
            }
        }
        if k % 211 == 7 {
            // a callback that panics (caught by the application) must leave the parser usable and unchanged
            let before = crate::core::guarded(|| image_of(parser, &pool[i]));
            let _ = crate::core::guarded(|| {
                let o = cooklang::analysis::ParseOptions { recipe_ref_check: Some(Box::new(|_| panic!("application callback fails"))), metadata_validator: Some(Box::new(|_, _, _| panic!("application callback fails"))) };
                parser.parse_with_options("---\ntitle: x\n---\nServe with @@tomato sauce{} and @./sides/rice{}.\n", o)
            });
            let after = crate::core::guarded(|| image_of(parser, &pool[i]));
            let case = Case::new("history", pool[i].as_str(), cfgs[ci].0.bits(), cfgs[ci].2);
            match (before, after) {
                (Ok(a), Ok(b)) => {
                    ctx.count("caught_callback_panics_followed_by_a_parse");
                    if a != b {
                        ctx.violation(&case, "history", "result_changed_after_a_callback_panicked", "the same parser gives another result after a parse during which an application callback panicked".into());
                    }
                }
                (Ok(_), Err(p)) => ctx.violation(&case, "history", "parser_unusable_after_a_callback_panicked", format!("{} at {}", p.message, p.location)),
                _ => {}
            }
        }
        if k % 1499 == 3 {
            // a callback that parses another recipe with the same parser (looking up the referenced recipe): the nested
            // call has to return. Bounded progress: 120 s of wall clock for two parses of under 100 bytes.
            let p2 = parser.clone();
            let (tx, rx) = std::sync::mpsc::channel();
            std::thread::spawn(move || {
                let inner = &p2;
                let o = cooklang::analysis::ParseOptions {
                    recipe_ref_check: Some(Box::new(move |_| {
                        let _ = inner.parse("Simmer the @tomatoes{400%g} for ~{20%min}.\n");
                        cooklang::analysis::CheckResult::Ok
                    })),
                    metadata_validator: Some(Box::new(move |_, _, _| {
                        let _ = inner.parse_metadata("---\nservings: 2\n---\n");
                        cooklang::analysis::CheckResult::Ok
                    })),
                };
                let r = p2.parse_with_options("---\ntitle: Pasta\n---\nServe the @@tomato sauce{} over the @pasta{400%g}.\n", o);
                let _ = tx.send(r.is_valid());
            });
            match rx.recv_timeout(std::time::Duration::from_secs(120)) {
                Ok(_) => ctx.count("nested_parses_from_callbacks_returned"),
                Err(std::sync::mpsc::RecvTimeoutError::Timeout) => {
                    let case = Case::new("history", "Serve the @@tomato sauce{} over the @pasta{400%g}.", cfgs[ci].0.bits(), cfgs[ci].2);
                    ctx.violation(&case, "history", "nested_parse_from_callback_does_not_return", "a recipe_ref_check / metadata_validator callback that parses with the same parser did not return within 120 s".into());
                }
                Err(_) => {
                    let case = Case::new("history", "Serve the @@tomato sauce{} over the @pasta{400%g}.", cfgs[ci].0.bits(), cfgs[ci].2);
                    ctx.violation(&case, "history", "nested_parse_from_callback_panics", "the thread running a parse whose callbacks parse with the same parser died".into());
                }
            }
        }
    }
    let _ = std::fs::remove_dir_all(&elsewhere);
}

fn threaded(ctx: &mut Ctx, pool: &[String], log: &mut Log, nthreads: usize, ops: usize, rounds: usize) {
    let cfgs = configs();
    for round in 0..rounds {
        let ci = round % cfgs.len();
        let (e, c, _) = &cfgs[ci];
        let parser = Arc::new(CooklangParser::new(*e, c.clone()));
        let barrier = Arc::new(Barrier::new(nthreads));
        let out: Arc<Mutex<Vec<(usize, usize, u64)>>> = Arc::new(Mutex::new(Vec::new()));
        let first: Arc<Mutex<Vec<usize>>> = Arc::new(Mutex::new(Vec::new()));
        // few keys, maximum overlap; every third round on the inputs that keep the unit lookup busy from two sides (durations
        // written with units in the metadata, units in timers / step text / references) — what one thread is in the middle of
        // must not be visible to the lookups of another
        let focus: Vec<usize> = pool.iter().enumerate().filter(|(_, t)| t.contains("[unit-heavy]")).map(|(i, _)| i).collect();
        let keys: Vec<usize> = if round % 3 == 2 && focus.len() >= 4 {
            ctx.count("thread_rounds_on_unit_heavy_inputs");
            focus.clone()
        } else {
            (0..8).map(|k| (k * 7 + round) % pool.len()).collect()
        };
        let pool_arc: Arc<Vec<String>> = Arc::new(pool.to_vec());
        let mut handles = Vec::new();
        for t in 0..nthreads {
            let (parser, barrier, out, first, keys, pool_arc) = (parser.clone(), barrier.clone(), out.clone(), first.clone(), keys.clone(), pool_arc.clone());
            let seed = ctx.seed ^ ((t as u64) << 8) ^ round as u64;
            let with_options = round % 2 == 1;
            handles.push(std::thread::spawn(move || {
                let mut r = Rng::new(seed);
                let mut local = Vec::new();
                barrier.wait();
                // first operation: force the lazily built fraction table (imperial conversion)
                let mut q = cooklang::Quantity::new(cooklang::Value::from(3.5), Some("tsp".to_string()));
                let _ = q.convert(System::Imperial, parser.converter());
                let _ = cooklang::quantity::Number::new_approx(0.26, 0.05, 4, 10);
                first.lock().unwrap().push(t);
                for _ in 0..ops {
                    let i = keys[r.below(keys.len())];
                    let opt = if with_options && r.below(3) == 0 { 1 + r.below(5) } else { 0 };
                    let img = image_with(&parser, &pool_arc[i], opt);
                    local.push((t, i + 100_000 * opt, hash64(img.as_bytes())));
                }
                out.lock().unwrap().extend(local);
            }));
        }
        let mut panicked = 0;
        for h in handles {
            if h.join().is_err() {
                panicked += 1;
            }
        }
        if panicked > 0 {
            ctx.count_n("thread_panics(C03)", panicked);
        }
        if let Some(t) = first.lock().unwrap().first() {
            ctx.count(&format!("first_thread_at_table:{t}"));
        }
        for (_, i, h) in out.lock().unwrap().iter() {
            log.record(*i % 100_000, ci + 10 * (*i / 100_000), *h);
        }
        ctx.count_n("threaded_calls", (nthreads * ops) as u64);
        ctx.count("thread_rounds");
    }
}

pub fn run(ctx: &mut Ctx) {
    let mode = std::env::var("VERIF_C18_MODE").unwrap_or_else(|_| "full".into());
    let mut log = Log { seen: BTreeMap::new(), calls: 0 };
    // the pool is not needed (and expensive to build under Miri) in tiny mode
    let pool = if mode == "tiny" { Vec::new() } else { pool() };
    match mode.as_str() {
        "short" => {
            // one short process: threads only, the table is initialised once per process
            let nthreads = 2 + (ctx.shard % 5) * 4; // 2..18
            threaded(ctx, &pool, &mut log, nthreads, 6, 1);
        }
        "tiny" => {
            // for Miri: 4 threads x 4 operations on the two cheapest inputs
            let small: Vec<String> = vec!["@a{1%tsp} and #b ~{5%min}".into(), ">> k: v\n@x{1/2} @&x{2}".into()];
            let cfg = (Extensions::all(), Converter::bundled());
            let parser = Arc::new(CooklangParser::new(cfg.0, cfg.1));
            let barrier = Arc::new(Barrier::new(4));
            let out: Arc<Mutex<Vec<(usize, u64)>>> = Arc::new(Mutex::new(Vec::new()));
            let mut hs = Vec::new();
            for t in 0..4usize {
                let (parser, barrier, out, small) = (parser.clone(), barrier.clone(), out.clone(), small.clone());
                hs.push(std::thread::spawn(move || {
                    barrier.wait();
                    let mut q = cooklang::Quantity::new(cooklang::Value::from(3.5), Some("tsp".to_string()));
                    let _ = q.convert(System::Imperial, parser.converter());
                    for k in 0..4usize {
                        let i = (t + k) % small.len();
                        let img = image_of(&parser, &small[i]);
                        out.lock().unwrap().push((i, hash64(img.as_bytes())));
                    }
                }));
            }
            for h in hs {
                let _ = h.join();
            }
            for (i, h) in out.lock().unwrap().iter() {
                log.record(1000 + *i, 0, *h);
            }
            ctx.count_n("threaded_calls", 16);
        }
        _ => {
            let calls = ctx.budget(2_000 * 8, 60_000 * 16) as usize;
            sequential(ctx, &pool, &mut log, calls);
            let rounds = ctx.budget(24 * 8, 2_000 * 16) as usize;
            threaded(ctx, &pool, &mut log, 16, 12, rounds);
        }
    }
    // in-process verdict: one hash per group
    ctx.evals += log.calls;
    let mut images: BTreeMap<String, String> = BTreeMap::new();
    for ((i, ci), hs) in &log.seen {
        let key = format!("{i}/{ci}");
        if hs.len() > 1 {
            let input = if *i >= 1000 { "tiny input".to_string() } else { pool[*i].clone() };
            let case = Case::new("history", input, 0, &format!("config {ci}")).with(json!({"hashes": hs.iter().map(|(h, n)| format!("{h:016x} x{n}")).collect::<Vec<_>>()}));
            ctx.violation(&case, "history", "different_results_for_same_call", format!("input {i} under config {ci} produced {} different images within one process: {:?}", hs.len(), hs));
        } else {
            ctx.nontrivial_hash(hash64(key.as_bytes()));
        }
        images.insert(key, format!("{:016x}", hs.keys().next().unwrap()));
    }
    ctx.count_n("groups_compared", log.seen.len() as u64);
    ctx.notes.insert("images".into(), json!(images));
    ctx.notes.insert("pool_size".into(), pool.len().into());
    if ctx.samples.is_empty() {
        let (k, v) = images.iter().next().map(|(k, v)| (k.clone(), v.clone())).unwrap_or_default();
        ctx.sample(json!({"group (input id/config id)": k, "image hash": v, "calls_in_this_process": log.calls, "mode": mode}));
    }
}

pub fn replay(ctx: &mut Ctx, case: &Case) {
    // a history violation is replayed by re-running a full in-process history
    let _ = case;
    run(ctx);
}
