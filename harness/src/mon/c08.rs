//! C08 — scaling multiplies exactly the scalable amounts and nothing else.

use crate::core::{Case, Ctx, Parsers, Rng};
use crate::gen::recipe::{self as g, feat, GenOpts};
use cooklang::scale::ScaleOutcome;
use cooklang::{Converter, Extensions, Quantity, ScalableValue, ScaledQuantity, Value};
use serde_json::{json, Value as J};

#[derive(Clone, Debug)]
enum Pre {
    None,
    Fixed(ScaledQuantity),
    Linear(ScaledQuantity),
}

fn pre_of(q: Option<&Quantity<ScalableValue>>) -> Pre {
    match q {
        None => Pre::None,
        Some(q) => match q.value() {
            ScalableValue::Fixed(v) => Pre::Fixed(Quantity::new(v.clone(), q.unit().map(String::from))),
            ScalableValue::Linear(v) => Pre::Linear(Quantity::new(v.clone(), q.unit().map(String::from))),
        },
    }
}

/// physical amount (both ends) and the class it is measured in
fn amount(conv: &Converter, q: &ScaledQuantity) -> Option<(String, f64, f64)> {
    let (lo, hi) = match q.value() {
        Value::Number(n) => (n.value(), n.value()),
        Value::Range { start, end } => (start.value(), end.value()),
        Value::Text(_) => return None,
    };
    match q.unit() {
        None => Some(("<none>".into(), lo, hi)),
        Some(u) => match crate::units::unit_by_exact_key(conv, u) {
            Some(unit) => Some((format!("{}", unit.physical_quantity), (lo + unit.difference) * unit.ratio, (hi + unit.difference) * unit.ratio)),
            None => Some((format!("unit:{u}"), lo, hi)),
        },
    }
}

/// is this unit text exactly one of the names / symbols / aliases the converter's units declare? (data, not the lookup
/// function: a lookup that guesses — plural stripping, case folding — must not turn an unknown unit into a known one)
fn declared_key(conv: &Converter, unit: &str) -> bool {
    conv.all_units().any(|u| u.names.iter().chain(&u.symbols).chain(&u.aliases).any(|k| &**k == unit))
}

/// the same amount by the independent table of standard definitions (where the unit is in it): a converter whose own
/// unit definitions are inconsistent with each other (a prefixed unit left behind when its base was re-defined by a later
/// layer) conserves "its" amounts and still scales 0.2 kg to 400000 g
fn amount_by_table(conv: &Converter, q: &ScaledQuantity) -> Option<(f64, f64)> {
    let (lo, hi) = match q.value() {
        Value::Number(n) => (n.value(), n.value()),
        Value::Range { start, end } => (start.value(), end.value()),
        Value::Text(_) => return None,
    };
    let d = crate::units::def_of(conv, q.unit()?)?;
    Some((d.to_base(lo), d.to_base(hi)))
}

fn close_table(a: f64, b: f64) -> bool {
    (a - b).abs() <= 1e-6 * a.abs().max(b.abs()).max(1e-300)
}

fn close(a: f64, b: f64) -> bool {
    (a - b).abs() <= 1e-9 * a.abs().max(b.abs()).max(1e-300)
}

fn check_quantity(conv: &Converter, what: &str, pre: &Pre, post: Option<&ScaledQuantity>, outcome: &ScaleOutcome, f: f64, bad: &mut Vec<(String, String)>) -> &'static str {
    match (pre, post) {
        (Pre::None, None) => {
            if !matches!(outcome, ScaleOutcome::NoQuantity) {
                bad.push(("outcome_names_wrong_case".into(), format!("{what}: no quantity but outcome {outcome:?}")));
            }
            "no_quantity"
        }
        (Pre::None, Some(q)) => {
            bad.push(("quantity_invented".into(), format!("{what}: had none, now {q}")));
            "bad"
        }
        (_, None) => {
            bad.push(("quantity_lost".into(), format!("{what}")));
            "bad"
        }
        (Pre::Fixed(p), Some(q)) => {
            if let Some(u) = p.unit() {
                if !declared_key(conv, u) && q.unit() != Some(u) {
                    bad.push(("unknown_unit_rewritten".into(), format!("{what}: {u:?} is not a key of any unit of the converter, yet {p} became {q}")));
                }
            }
            if !matches!(outcome, ScaleOutcome::Fixed) {
                bad.push(("outcome_names_wrong_case".into(), format!("{what}: fixed value {p} but outcome {outcome:?}")));
            }
            match (amount(conv, p), amount(conv, q)) {
                (None, None) => {
                    if p != q {
                        bad.push(("text_value_changed".into(), format!("{what}: {p:?} became {q:?}")));
                    }
                    "fixed_text"
                }
                (Some((ca, a0, a1)), Some((cb, b0, b1))) => {
                    if ca != cb || !close(a0, b0) || !close(a1, b1) {
                        bad.push(("fixed_amount_changed".into(), format!("{what}: {p} became {q} ({ca} {a0}..{a1} vs {cb} {b0}..{b1}) at factor {f}")));
                    } else if let (Some((t0, t1)), Some((u0, u1))) = (amount_by_table(conv, p), amount_by_table(conv, q)) {
                        if !close_table(t0, u0) || !close_table(t1, u1) {
                            bad.push(("fixed_amount_changed_by_standard_definitions".into(), format!("{what}: {p} became {q}: {t0}..{t1} vs {u0}..{u1}")));
                        }
                    }
                    "fixed_numeric"
                }
                _ => {
                    bad.push(("value_kind_changed".into(), format!("{what}: {p:?} became {q:?}")));
                    "bad"
                }
            }
        }
        (Pre::Linear(p), Some(q)) => {
            if let Some(u) = p.unit() {
                if !declared_key(conv, u) && q.unit() != Some(u) {
                    bad.push(("unknown_unit_rewritten".into(), format!("{what}: {u:?} is not a key of any unit of the converter, yet {p} became {q}")));
                }
            }
            if !matches!(outcome, ScaleOutcome::Scaled) {
                bad.push(("outcome_names_wrong_case".into(), format!("{what}: scalable value {p} but outcome {outcome:?}")));
            }
            match (amount(conv, p), amount(conv, q)) {
                (Some((ca, a0, a1)), Some((cb, b0, b1))) => {
                    let off = crate::units::unit_by_exact_key(conv, p.unit().unwrap_or("")).map(|u| u.difference * u.ratio).unwrap_or(0.0);
                    // amounts are linear in the value only without offset; the generator uses no offset units
                    if ca != cb || !close((a0 - off) * f + off, b0) || !close((a1 - off) * f + off, b1) {
                        bad.push(("scaled_amount_wrong".into(), format!("{what}: {p} x {f} became {q} ({:?}); amount {a0}..{a1} x {f} != {b0}..{b1}", q.value())));
                    } else if let (Some((t0, t1)), Some((u0, u1))) = (amount_by_table(conv, p), amount_by_table(conv, q)) {
                        if off == 0.0 && (!close_table(t0 * f, u0) || !close_table(t1 * f, u1)) {
                            bad.push(("scaled_amount_wrong_by_standard_definitions".into(), format!("{what}: {p} x {f} became {q}: by the standard definitions {t0}..{t1} x {f} != {u0}..{u1}")));
                        }
                    }
                    "scaled"
                }
                _ => {
                    bad.push(("value_kind_changed".into(), format!("{what}: {p:?} became {q:?}")));
                    "bad"
                }
            }
        }
    }
}

fn untouched(img: &J) -> J {
    // everything that scaling must leave alone, as one JSON value
    let strip = |list: &J, keep_q: bool| -> J {
        J::Array(
            list.as_array()
                .map(|a| {
                    a.iter()
                        .map(|c| {
                            let mut o = c.as_object().cloned().unwrap_or_default();
                            if !keep_q {
                                o.remove("quantity");
                            }
                            J::Object(o)
                        })
                        .collect()
                })
                .unwrap_or_default(),
        )
    };
    json!({
        "metadata": img["metadata"],
        "sections": img["sections"],
        "inline_quantities": img["inline_quantities"],
        "ingredients": strip(&img["ingredients"], false),
        "cookware": strip(&img["cookware"], false),
        "timers": strip(&img["timers"], false),
    })
}

pub fn check_case(ctx: &mut Ctx, ps: &mut Parsers, case: &Case, factors: &[f64], servings_targets: &[u32]) {
    let parser = ps.parser(case.ext, &case.conv).clone();
    let conv = parser.converter().clone();
    let parse = || crate::core::guarded(|| parser.parse(&case.input));
    let Ok(r0) = parse() else { return };
    if !r0.is_valid() {
        ctx.count("not_valid_skipped");
        return;
    }
    let rec0 = r0.into_output().unwrap();
    let img0 = serde_json::to_value(&rec0).unwrap();
    let u0 = untouched(&img0);
    let pre_i: Vec<Pre> = rec0.ingredients.iter().map(|i| pre_of(i.quantity.as_ref())).collect();
    let pre_c: Vec<Pre> = rec0.cookware.iter().map(|c| match &c.quantity {
        None => Pre::None,
        Some(ScalableValue::Fixed(v)) => Pre::Fixed(Quantity::new(v.clone(), None)),
        Some(ScalableValue::Linear(v)) => Pre::Linear(Quantity::new(v.clone(), None)),
    }).collect();
    let pre_t: Vec<Pre> = rec0.timers.iter().map(|t| pre_of(t.quantity.as_ref())).collect();
    if let Some(kinds) = case.params.get("source_kinds").and_then(|k| k.as_array()) {
        let got: Vec<J> = img0["ingredients"].as_array().map(|a| a.iter().map(|i| i["quantity"]["value"]["type"].clone()).collect()).unwrap_or_default();
        if &got != kinds {
            let k = got.iter().zip(kinds).position(|(a, b)| a != b).unwrap_or(0);
            ctx.violation(case, "scale", "written_kind_misread", format!("ingredient {k} {:?}: the source makes it {} but the parsed recipe says {} (all: source {kinds:?}, parsed {got:?})", rec0.ingredients.get(k).map(|i| &i.name), kinds.get(k).unwrap_or(&J::Null), got.get(k).unwrap_or(&J::Null)));
            return;
        }
        ctx.count("source_kinds_agree");
    }
    // the amounts as the SOURCE writes them (reference semantics of the generator): what scaling starts from is part of
    // the property, a parser that misreads `1 3/2` scales the wrong number "exactly"
    for (what, key) in [("ingredient", "source_quantities"), ("cookware", "source_cookware_quantities"), ("timer", "source_timer_quantities")] {
        let Some(qs) = case.params.get(key).and_then(|k| k.as_array()) else { continue };
        let list = match what { "ingredient" => "ingredients", "cookware" => "cookware", _ => "timers" };
        let got: Vec<J> = img0[list].as_array().map(|a| a.iter().map(|i| i["quantity"].clone()).collect()).unwrap_or_default();
        if &got != qs {
            let k = got.iter().zip(qs).position(|(a, b)| a != b).unwrap_or(got.len().min(qs.len()));
            ctx.violation(case, "scale", "written_amount_misread", format!("{what} {k}: the source writes {} but the parsed recipe holds {}", qs.get(k).unwrap_or(&J::Null), got.get(k).unwrap_or(&J::Null)));
            return;
        }
        ctx.count("source_amounts_agree");
    }
    // the declared servings come from the generator's model of the source text (case parameter), not from the
    // library's accessor: "the first declared servings" is part of what is being checked
    let declared: Option<Vec<u32>> = case.params.get("declared_servings").and_then(|v| v.as_array()).map(|a| a.iter().filter_map(|x| x.as_u64().map(|x| x as u32)).collect());
    let servings = match (&declared, case.params.get("declared_servings")) {
        (Some(d), _) => Some(d.clone()),
        (None, Some(_)) => None, // the model says: no servings declared
        (None, None) => rec0.servings().map(|s| s.to_vec()), // replay of a foreign input: fall back to the accessor
    };
    if case.params.get("declared_servings").is_some() {
        let got = rec0.servings().map(|s| s.to_vec());
        if got != servings {
            ctx.violation(case, "servings", "declared_servings_differ", format!("the source declares servings {servings:?} but the recipe reports {got:?}"));
        }
    }

    // default scaling: written values verbatim
    {
        ctx.begin(case);
        let mut bad: Vec<(String, String)> = Vec::new();
        match crate::core::guarded(|| rec0.default_scale()) {
            Err(p) => ctx.panic_violation(case, "default_scale", p),
            Ok(s) => {
                if !s.is_default_scaled() || s.scaled_data().is_some() {
                    bad.push(("default_scale_not_marked".into(), String::new()));
                }
                let verb = |what: String, pre: &Pre, post: Option<ScaledQuantity>, bad: &mut Vec<(String, String)>| {
                    let want = match pre {
                        Pre::None => None,
                        Pre::Fixed(q) | Pre::Linear(q) => Some(q.clone()),
                    };
                    // "verbatim": the same variant with the same fields (a fraction stays that fraction) — `==` on numbers
                    // only compares the numeric value, so the comparison is on the Debug form
                    if want != post || format!("{want:?}") != format!("{post:?}") {
                        bad.push(("default_scale_not_verbatim".into(), format!("{what}: written {want:?}, default scaling gives {post:?}")));
                    }
                };
                for (i, p) in pre_i.iter().enumerate() {
                    verb(format!("ingredient {i}"), p, s.ingredients[i].quantity.clone(), &mut bad);
                }
                for (i, p) in pre_c.iter().enumerate() {
                    verb(format!("cookware {i}"), p, s.cookware[i].quantity.clone().map(|v| Quantity::new(v, None)), &mut bad);
                }
                for (i, p) in pre_t.iter().enumerate() {
                    verb(format!("timer {i}"), p, s.timers[i].quantity.clone(), &mut bad);
                }
                let u = untouched(&serde_json::to_value(&s).unwrap());
                if u != u0 {
                    let mut p = String::new();
                    let d = g::json_diff(&u0, &u, &mut p).unwrap_or_default();
                    bad.push(("default_scale_changed_other_data".into(), format!("at {}: {} -> {}", d.0, d.1, d.2)));
                }
                if bad.is_empty() {
                    ctx.count("default_scale_ok");
                }
            }
        }
        for (c, m) in bad {
            ctx.violation(case, "default_scale", &c, m);
        }
    }

    for f in factors {
        let Ok(r) = parse() else { return };
        let Some(rec) = r.into_output() else { return };
        let mut c2 = case.clone();
        if !c2.params.is_object() {
            c2.params = json!({});
        }
        c2.params["factor"] = json!(f);
        ctx.begin(&c2);
        let s = match crate::core::guarded(|| rec.scale(*f, &conv)) {
            Ok(s) => s,
            Err(p) => {
                ctx.panic_violation(&c2, "scale", p);
                continue;
            }
        };
        let mut bad: Vec<(String, String)> = Vec::new();
        let Some(data) = s.scaled_data() else {
            ctx.violation(&c2, "scale", "no_scaled_data", "scale() result carries no ScaledData".into());
            continue;
        };
        if data.target.factor() != *f {
            bad.push(("target_factor_wrong".into(), format!("{} vs {f}", data.target.factor())));
        }
        if data.ingredients.len() != s.ingredients.len() || data.cookware.len() != s.cookware.len() || data.timers.len() != s.timers.len() || s.ingredients.len() != pre_i.len() || s.cookware.len() != pre_c.len() || s.timers.len() != pre_t.len() {
            bad.push(("outcomes_do_not_line_up".into(), format!("ingredients {}/{} cookware {}/{} timers {}/{}", data.ingredients.len(), s.ingredients.len(), data.cookware.len(), s.cookware.len(), data.timers.len(), s.timers.len())));
        } else {
            for (i, p) in pre_i.iter().enumerate() {
                let k = check_quantity(&conv, &format!("ingredient {i} {:?}", s.ingredients[i].name), p, s.ingredients[i].quantity.as_ref(), &data.ingredients[i], *f, &mut bad);
                ctx.count(&format!("ingredient:{k}"));
            }
            for (i, p) in pre_c.iter().enumerate() {
                let post = s.cookware[i].quantity.clone().map(|v| Quantity::new(v, None));
                // cookware amounts are never touched: exact equality
                let want = match p {
                    Pre::None => None,
                    Pre::Fixed(q) | Pre::Linear(q) => Some(q.clone()),
                };
                if want != post {
                    bad.push(("cookware_changed".into(), format!("cookware {i}: {want:?} became {post:?}")));
                }
                let k = check_quantity(&conv, &format!("cookware {i}"), p, post.as_ref(), &data.cookware[i], 1.0, &mut bad);
                ctx.count(&format!("cookware:{k}"));
            }
            for (i, p) in pre_t.iter().enumerate() {
                let k = check_quantity(&conv, &format!("timer {i}"), p, s.timers[i].quantity.as_ref(), &data.timers[i], 1.0, &mut bad);
                ctx.count(&format!("timer:{k}"));
            }
        }
        let u = untouched(&serde_json::to_value(&s).unwrap());
        if u != u0 {
            let mut p = String::new();
            let d = g::json_diff(&u0, &u, &mut p).unwrap_or_default();
            bad.push(("scale_changed_other_data".into(), format!("at {}: {} -> {}", d.0, d.1, d.2)));
        }
        if bad.is_empty() {
            if !pre_i.is_empty() {
                ctx.nontrivial(&c2);
            }
            if ctx.evals % 3000 == 1 {
                ctx.sample(json!({"recipe": case.input, "factor": f, "ingredients": s.ingredients.iter().zip(&pre_i).map(|(i, p)| format!("{} : {:?} -> {:?}", i.name, match p { Pre::None => "-".to_string(), Pre::Fixed(q) => format!("fixed {q}"), Pre::Linear(q) => format!("linear {q}") }, i.quantity.as_ref().map(|q| q.to_string()))).collect::<Vec<_>>()}));
            }
        }
        for (c, m) in bad {
            ctx.violation(&c2, "scale", &c, m);
        }
    }

    // scale_to_servings(n) == scale(n / first servings)
    for n in servings_targets {
        let (Ok(ra), Ok(rb)) = (parse(), parse()) else { return };
        let (Some(a), Some(b)) = (ra.into_output(), rb.into_output()) else { return };
        let mut c2 = case.clone();
        if !c2.params.is_object() {
            c2.params = json!({});
        }
        c2.params["servings_target"] = json!(n);
        ctx.begin(&c2);
        let base = servings.as_ref().and_then(|s| s.first().copied()).unwrap_or(1);
        if base == 0 {
            ctx.count("servings_base_zero_skipped");
            continue;
        }
        let f = *n as f64 / base as f64;
        let r = crate::core::guarded(|| (serde_json::to_value(a.scale_to_servings(*n, &conv)).unwrap(), serde_json::to_value(b.scale(f, &conv)).unwrap()));
        match r {
            Err(p) => ctx.panic_violation(&c2, "scale_to_servings", p),
            Ok((x, y)) => {
                if x != y {
                    let mut p = String::new();
                    let d = g::json_diff(&y, &x, &mut p).unwrap_or_default();
                    ctx.violation(&c2, "servings", "scale_to_servings_differs", format!("servings {servings:?}, target {n}: at {}: scale(f) gives {} but scale_to_servings gives {}", d.0, d.1, d.2));
                } else {
                    ctx.count(if servings.is_some() { "servings_declared_ok" } else { "servings_undeclared_ok" });
                    if servings.as_ref().is_some_and(|s| s.windows(2).any(|w| w[0] > w[1])) {
                        ctx.count("servings_declared_unsorted_ok");
                    }
                }
            }
        }
    }
}

/// call sequence: set_servings(list) then scale_to_servings(n) must use the first entry of the list just set
fn set_servings_sequence(ctx: &mut Ctx, ps: &mut Parsers, case: &Case, list: &[u32], n: u32) {
    let parser = ps.parser(case.ext, &case.conv).clone();
    let conv = parser.converter().clone();
    let parse = || crate::core::guarded(|| parser.parse(&case.input).into_output());
    let (Ok(Some(mut a)), Ok(Some(b))) = (parse(), parse()) else { return };
    let mut c2 = case.clone();
    c2.params = json!({"set_servings": list, "servings_target": n});
    ctx.begin(&c2);
    a.set_servings(list.to_vec());
    if a.servings() != Some(list) {
        ctx.violation(&c2, "servings", "set_servings_not_reported", format!("set {list:?}, servings() reports {:?}", a.servings()));
        return;
    }
    let f = n as f64 / list[0] as f64;
    match crate::core::guarded(|| (a.scale_to_servings(n, &conv), b.scale(f, &conv))) {
        Err(p) => ctx.panic_violation(&c2, "set_servings+scale_to_servings", p),
        Ok((x, y)) => {
            let (fx, fy) = (x.scaled_data().map(|d| d.target.factor()), y.scaled_data().map(|d| d.target.factor()));
            let same_amounts = serde_json::to_value(&x.ingredients).ok() == serde_json::to_value(&y.ingredients).ok();
            if fx != fy || !same_amounts {
                ctx.violation(&c2, "servings", "set_servings_ignored_by_scale_to_servings", format!("after set_servings({list:?}), scale_to_servings({n}) used factor {fx:?}, expected {fy:?}"));
            } else {
                ctx.count("set_servings_sequence_ok");
            }
        }
    }
}

/// Parsing with a caller's metadata validator that switches the standard checks off for ONE key (or drops one key): the
/// servings declared under another key are still the base of `scale_to_servings`, wherever that key is written.
fn validator_cases(ctx: &mut Ctx) {
    use cooklang::analysis::{CheckResult, ParseOptions};
    let conv = cooklang::Converter::bundled();
    let parser = cooklang::CooklangParser::new(Extensions::all(), conv.clone());
    for (front, other, servings_key, declared) in [
        ("time: about an hour and a half\nservings: 2", "time", "servings", 2u32),
        ("title: Bread\nlocale: english\nserves: 4|8", "locale", "serves", 4),
        ("servings: 3\ntime: soon", "time", "servings", 3),
        ("tags: 7\nauthor: <x>\nyield: 5", "tags", "yield", 5),
    ] {
        for syntax in 0..2 {
            let input = if syntax == 0 { format!("---\n{front}\n---\nMix @flour{{100%g}}.\n") } else { format!("{}\nMix @flour{{100%g}}.\n", front.lines().map(|l| format!(">> {l}")).collect::<Vec<_>>().join("\n")) };
            for action in 0..2 {
                let case = Case::new("validator", input.as_str(), Extensions::all().bits(), "bundled").with(json!({"other_key": other, "action": action, "servings_key": servings_key}));
                ctx.begin(&case);
                let opts = ParseOptions {
                    recipe_ref_check: None,
                    metadata_validator: Some(Box::new(move |k, _v, o| {
                        if k.as_str() == Some(other) {
                            if action == 0 { o.run_std_checks(false) } else { o.include(false) }
                        }
                        CheckResult::Ok
                    })),
                };
                let res = crate::core::guarded(|| {
                    let rec = parser.parse_with_options(&input, opts).into_output()?;
                    let got = rec.servings().map(|s| s.to_vec());
                    let scaled = rec.scale_to_servings(declared * 2, &conv);
                    Some((got, scaled.ingredients[0].quantity.clone()))
                });
                match res {
                    Err(p) => ctx.panic_violation(&case, "parse_with_options+scale_to_servings", p),
                    Ok(None) => ctx.count("validator_case_without_output"),
                    Ok(Some((got, q))) => {
                        let amount = q.as_ref().and_then(|q| amount_by_table(&conv, q)).map(|a| a.0);
                        if got.as_ref().and_then(|g| g.first().copied()) != Some(declared) || !matches!(amount, Some(a) if close_table(a, 200.0)) {
                            ctx.violation(&case, "servings", "servings_lost_when_a_validator_touches_another_key", format!("a validator {} `{other}`: the recipe reports servings {got:?} (declared under `{servings_key}`: {declared}); scaled to {} servings the 100 g are {:?}", if action == 0 { "switches the checks off for" } else { "drops" }, declared * 2, q.map(|q| q.to_string())));
                        } else {
                            ctx.count("validator_cases_ok");
                            ctx.nontrivial(&case);
                        }
                    }
                }
            }
        }
    }
}

pub fn run(ctx: &mut Ctx) {
    let mut ps = Parsers::new();
    if ctx.shard == 0 {
        validator_cases(ctx);
    }
    if let Some(c) = crate::mon::c09::layered_converter() {
        ps.register("layered", c);
    } else {
        ctx.harness_errors.push("C08: the layered converter does not build".into());
    }
    // hand-written quantities the generator does not produce: temperatures (offset units, with the kelvin of the layered
    // converter), unit texts that are one letter away from a known unit and must stay untouched
    if ctx.shard == 0 {
        for (text, ext, declared) in [
            ("Cool with @liquid nitrogen{77%K} below @limit{=300%K}, keep @water{20%°C} and @oil{350%°F}.", Extensions::all().bits(), J::Null),
            ("Wait ~{500%ms} then ~{20-40%ms} then ~{90%min}; add @a{3%gs} @b{2%ls} @c{1%kgs} @d{5%mins} @e{2%tsps} @f{1%Ls}.", (Extensions::all() ^ Extensions::ADVANCED_UNITS).bits(), J::Null),
            ("@a{500%ms} @b{3%gs} @c{2%ozs} @d{1%lbss} @e{4%cm s}", Extensions::all().bits(), J::Null),
            // every SI prefix of every expanded unit, by symbol and by name
            ("Knead @flour{25%dag} with @water{1%dal}, @a{3%dl}, @b{2%dg}, @c{5%dm}, @d{4%hl}, @e{7%cg}, @f{2%hg}, @g{3%dam}, @h{1%kl} and @i{9%cm}.", Extensions::all().bits(), J::Null),
            ("@a{2%decagrams} @b{3%deciliters} @c{1%hectogram} @d{4%centiliters} @e{5%kilometers} @f{6%milligrams} @g{1%decaliter} @h{2%decimeters}", Extensions::all().bits(), J::Null),
            // units written with the prime symbols
            ("Cut the @dough{3%\"} thick and the @pastry{1-2%'} long, in a #tin{1}.", Extensions::all().bits(), J::Null),
            // ranges that start at zero, with units of every system and without
            ("Add @flour{0-2%kg}, @salt{0-1%tsp}, @milk{0-0.5%l}, @x{0-0%g}, @sugar{0-3%oz}, @y{0-2} and @z{0-4%pinch} for ~{0-10%min}.", Extensions::all().bits(), J::Null),
            (">> servings: 4\n>> title: Soup\n>> description: warm\n\nAdd @flour{0-2%kg} and @water{1%l}.\n", Extensions::all().bits(), json!([4])),
            (">> yield: 3|6\n>> cuisine: any\n>> tags: a, b\n\nAdd @flour{300%g} and @water{1-2%cup}.\n", Extensions::all().bits(), json!([3, 6])),
            // servings written as text with more digits after the leading number
            ("---\nservings: 6-8 people\n---\n\nMix @flour{600%g} with @eggs{3}.\n", Extensions::all().bits(), json!([6])),
            (">> servings: 4 (or 2 big ones)\n\nMix @flour{600%g} with @eggs{3}.\n", 0, json!([4])),
            ("---\nyield: 2 x 9 inch pies | 4 x 9 inch pies\n---\nMix @flour{600%g} with @eggs{3}.\n", Extensions::all().bits(), json!([2, 4])),
            ("---\nserves: [3 to 4, '6 (8 small)']\n---\nMix @flour{600%g} with @eggs{3}.\n", Extensions::all().bits(), json!([3, 6])),
        ] {
            for conv in ["layered", "bundled"] {
                let case = Case::new("fixed", text, ext, conv).with(json!({"declared_servings": declared.clone()}));
                check_case(ctx, &mut ps, &case, &[1.0, 2.0, 0.5, 3.0], &[2, 6]);
                ctx.count("handwritten_offset_and_near_miss_units");
            }
        }
    }
    let n = ctx.budget(5_000, 2_400_000);
    for i in 0..n {
        let extended = i % 3 != 0;
        let opts = if extended { GenOpts::extended() } else { GenOpts::canonical() };
        let seed = ctx.rng.next();
        let mut r = Rng::new(seed);
        let spec = g::gen_spec(&mut r, &opts);
        let sp = g::spell(&spec, seed, feat::ALL, 1);
        let (ext, conv) = if extended { (Extensions::all().bits(), if i % 5 == 1 { "layered" } else { "bundled" }) } else { (0, "empty") };
        if conv == "layered" {
            ctx.count("recipes_scaled_with_layered_converter");
        }
        // sp.expected["data"] is the servings list the reference semantics derives from the spec (null = none)
        let declared = sp.expected.as_ref().map(|e| e["data"].clone()).unwrap_or(J::Null);
        // per ingredient: the scaling kind the SOURCE asks for ("linear" / "fixed" / null) by the reference semantics —
        // "not locked with `=`" is a statement about the source text, so the parser's own classification is not trusted
        let kinds: J = sp.expected.as_ref().map(|e| J::Array(e["ingredients"].as_array().map(|a| a.iter().map(|i| i["quantity"]["value"]["type"].clone()).collect()).unwrap_or_default())).unwrap_or(J::Null);
        let qs = |list: &str| -> J { sp.expected.as_ref().map(|e| J::Array(e[list].as_array().map(|a| a.iter().map(|i| i["quantity"].clone()).collect()).unwrap_or_default())).unwrap_or(J::Null) };
        let case = Case::new("g1", sp.text.as_str(), ext, conv).with(json!({"declared_servings": declared, "source_kinds": kinds, "source_quantities": qs("ingredients"), "source_cookware_quantities": qs("cookware"), "source_timer_quantities": qs("timers")}));
        let mut factors = vec![2.0, 0.5, 1.0 / 3.0];
        factors.push(*ctx.rng.pick(&[1.0, 7.0, 1e-6, 1e6, 3000000001.0, 4294967296.5, 1e12]));
        factors.push(ctx.rng.log_uniform(1e-3, 1e3));
        let targets = [1u32, ctx.rng.range(2, 40) as u32];
        check_case(ctx, &mut ps, &case, &factors, &targets);
        if i % 4 == 0 {
            let list: Vec<u32> = match ctx.rng.below(3) {
                0 => vec![ctx.rng.range(1, 12) as u32],
                1 => vec![5, 10],
                _ => vec![8, 4, 2],
            };
            let n = ctx.rng.range(1, 24) as u32;
            set_servings_sequence(ctx, &mut ps, &case, &list, n);
        }
    }
}

pub fn replay(ctx: &mut Ctx, case: &Case) {
    let mut ps = Parsers::new();
    if let Some(c) = crate::mon::c09::layered_converter() {
        ps.register("layered", c);
    }
    let f: Vec<f64> = case.params.get("factor").and_then(|x| x.as_f64()).map(|x| vec![x]).unwrap_or_else(|| vec![2.0, 0.5]);
    let t: Vec<u32> = case.params.get("servings_target").and_then(|x| x.as_u64()).map(|x| vec![x as u32]).unwrap_or_else(|| vec![1, 7]);
    let mut c = case.clone();
    if let Some(o) = c.params.as_object_mut() {
        o.remove("factor");
        o.remove("servings_target");
    }
    check_case(ctx, &mut ps, &c, &f, &t);
}
