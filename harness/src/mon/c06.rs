//! C06 — the recipe model is referentially consistent (pure invariant walk).

use crate::core::{Case, Ctx, Parsers};
use crate::gen::alphabet;
use crate::workload::{self, G2};
use cooklang::model::{ComponentRelation, Content, IngredientReferenceTarget as Target, Item};
use cooklang::{Extensions, Modifiers, ScalableRecipe};
use std::collections::BTreeMap;

#[derive(Default)]
pub struct Seen {
    pub refs_ingredient: u64,
    pub refs_cookware: u64,
    pub refs_step: u64,
    pub refs_section: u64,
    pub unowned_components: u64,
    pub empty_text_paragraphs: u64,
    pub steps: u64,
}

pub fn invariants(r: &ScalableRecipe, valid: bool, seen: &mut Seen) -> Vec<(String, String)> {
    let mut bad: Vec<(String, String)> = Vec::new();
    macro_rules! bad {
        ($c:expr, $($arg:tt)*) => { if bad.len() < 6 { bad.push(($c.to_string(), format!($($arg)*))) } };
    }
    // owner of each component: (section index, content index)
    let mut own_i: BTreeMap<usize, (usize, usize)> = BTreeMap::new();
    let (mut last_i, mut last_c, mut last_t, mut last_q) = (None::<usize>, None::<usize>, None::<usize>, None::<usize>);
    for (si, s) in r.sections.iter().enumerate() {
        if s.name.is_none() && s.content.is_empty() {
            bad!("empty_section", "section {si} has neither name nor content");
        }
        let mut expect = 1u32;
        for (ci, c) in s.content.iter().enumerate() {
            match c {
                Content::Text(t) => {
                    if t.is_empty() {
                        seen.empty_text_paragraphs += 1;
                    }
                }
                Content::Step(step) => {
                    seen.steps += 1;
                    if step.number != expect {
                        bad!("step_number", "section {si} content {ci}: step number {} expected {expect}", step.number);
                    }
                    expect += 1;
                    if step.items.is_empty() {
                        bad!("empty_step", "section {si} content {ci}: step without items");
                    }
                    for it in &step.items {
                        let (kind, idx, len, last) = match it {
                            Item::Text { value } => {
                                if value.is_empty() {
                                    bad!("empty_text_item", "section {si} content {ci}: empty text item");
                                }
                                continue;
                            }
                            Item::Ingredient { index } => ("ingredient", *index, r.ingredients.len(), &mut last_i),
                            Item::Cookware { index } => ("cookware", *index, r.cookware.len(), &mut last_c),
                            Item::Timer { index } => ("timer", *index, r.timers.len(), &mut last_t),
                            Item::InlineQuantity { index } => ("inline_quantity", *index, r.inline_quantities.len(), &mut last_q),
                        };
                        if idx >= len {
                            bad!("item_index_out_of_range", "{kind} item index {idx} but only {len} exist");
                        }
                        if let Some(l) = *last {
                            if idx <= l {
                                bad!("item_indices_not_increasing", "{kind} item index {idx} after {l}");
                            }
                        }
                        *last = Some(idx);
                        if kind == "ingredient" {
                            own_i.insert(idx, (si, ci));
                        }
                    }
                }
            }
        }
    }
    // ingredients
    for (i, igr) in r.ingredients.iter().enumerate() {
        let is_ref_mod = igr.modifiers().contains(Modifiers::REF);
        match igr.relation.references_to() {
            Some((t, Target::Ingredient)) => {
                seen.refs_ingredient += 1;
                if t >= i {
                    bad!("reference_not_earlier", "ingredient {i} references {t}");
                } else {
                    let def = &r.ingredients[t];
                    if !def.relation.is_definition() {
                        bad!("reference_to_reference", "ingredient {i} references {t} which is not a definition");
                    }
                    let n = def.relation.referenced_from().iter().filter(|x| **x == i).count();
                    if n != 1 {
                        bad!("not_listed_back_once", "ingredient {i} references {t}, listed back {n} times in {:?}", def.relation.referenced_from());
                    }
                    if valid && unicase::UniCase::new(&igr.name) != unicase::UniCase::new(&def.name) {
                        bad!("reference_name_differs", "ingredient {i} {:?} references {t} {:?}", igr.name, def.name);
                    }
                }
            }
            Some((t, Target::Step)) => {
                seen.refs_step += 1;
                match own_i.get(&i) {
                    None => seen.unowned_components += 1,
                    Some((si, ci)) => {
                        let sec = &r.sections[*si];
                        if t >= sec.content.len() || !sec.content[t].is_step() {
                            bad!("step_reference_target", "ingredient {i} references content {t} of section {si} which is not a step");
                        } else if t >= *ci {
                            bad!("step_reference_not_earlier", "ingredient {i} in content {ci} references step at {t}");
                        }
                    }
                }
            }
            Some((t, Target::Section)) => {
                seen.refs_section += 1;
                match own_i.get(&i) {
                    None => seen.unowned_components += 1,
                    Some((si, _)) => {
                        if t >= *si {
                            bad!("section_reference_not_earlier", "ingredient {i} in section {si} references section {t}");
                        }
                    }
                }
            }
            None => {
                let rf = igr.relation.referenced_from();
                for (k, e) in rf.iter().enumerate() {
                    if *e <= i || *e >= r.ingredients.len() {
                        bad!("referenced_from_range", "ingredient {i} referenced_from {rf:?}");
                    } else if r.ingredients[*e].relation.references_to() != Some((i, Target::Ingredient)) {
                        bad!("referenced_from_not_pointing_back", "ingredient {i} lists {e} which references {:?}", r.ingredients[*e].relation.references_to());
                    }
                    if k > 0 && rf[k - 1] >= *e {
                        bad!("referenced_from_not_increasing", "ingredient {i} referenced_from {rf:?}");
                    }
                }
            }
        }
        if valid && igr.relation.references_to().is_some() != is_ref_mod {
            bad!("reference_iff_modifier", "ingredient {i} {:?}: relation reference={} but REF modifier={}", igr.name, igr.relation.references_to().is_some(), is_ref_mod);
        }
        if !own_i.contains_key(&i) && igr.relation.references_to().is_none() {
            seen.unowned_components += 1;
        }
    }
    // cookware
    for (i, cw) in r.cookware.iter().enumerate() {
        let is_ref_mod = cw.modifiers().contains(Modifiers::REF);
        match &cw.relation {
            ComponentRelation::Reference { references_to: t } => {
                seen.refs_cookware += 1;
                if *t >= i {
                    bad!("reference_not_earlier", "cookware {i} references {t}");
                } else {
                    let def = &r.cookware[*t];
                    if !def.relation.is_definition() {
                        bad!("reference_to_reference", "cookware {i} references {t} which is not a definition");
                    }
                    let n = def.relation.referenced_from().iter().filter(|x| **x == i).count();
                    if n != 1 {
                        bad!("not_listed_back_once", "cookware {i} references {t}, listed back {n} times");
                    }
                    if valid && unicase::UniCase::new(&cw.name) != unicase::UniCase::new(&def.name) {
                        bad!("reference_name_differs", "cookware {i} {:?} references {t} {:?}", cw.name, def.name);
                    }
                }
            }
            ComponentRelation::Definition { referenced_from: rf, .. } => {
                for (k, e) in rf.iter().enumerate() {
                    if *e <= i || *e >= r.cookware.len() {
                        bad!("referenced_from_range", "cookware {i} referenced_from {rf:?}");
                    } else if r.cookware[*e].relation.references_to() != Some(i) {
                        bad!("referenced_from_not_pointing_back", "cookware {i} lists {e}");
                    }
                    if k > 0 && rf[k - 1] >= *e {
                        bad!("referenced_from_not_increasing", "cookware {i} referenced_from {rf:?}");
                    }
                }
            }
        }
        if valid && cw.relation.is_reference() != is_ref_mod {
            bad!("reference_iff_modifier", "cookware {i} {:?}: relation reference={} but REF modifier={}", cw.name, cw.relation.is_reference(), is_ref_mod);
        }
    }
    for (i, t) in r.timers.iter().enumerate() {
        if t.name.is_none() && t.quantity.is_none() {
            bad!("timer_without_name_and_quantity", "timer {i}");
        }
    }
    bad
}

pub fn check_case(ctx: &mut Ctx, ps: &mut Parsers, case: &Case) {
    ctx.begin(case);
    let parser = ps.parser(case.ext, &case.conv).clone();
    let r = match crate::core::guarded(|| parser.parse(&case.input)) {
        Ok(r) => r,
        Err(p) => {
            // the analysis asserts its own reference bookkeeping (indices in range, relations matching modifiers): an
            // assertion that fires there is this property failing inside the library, not only a crash
            if p.repo_file.contains("analysis") || p.repo_file.contains("model") {
                ctx.violation(case, "invariant", &format!("reference_bookkeeping_assertion|{}", crate::core::strip_digits(&p.message).chars().take(50).collect::<String>()), format!("{} at {}", p.message, p.location));
            } else {
                ctx.count("panic_in_parse(C03)");
            }
            return;
        }
    };
    let valid = r.is_valid();
    let Some(recipe) = r.output() else {
        ctx.count("no_output");
        return;
    };
    ctx.count(if valid { "outputs_valid" } else { "outputs_invalid" });
    let mut seen = Seen::default();
    let bad = invariants(recipe, valid, &mut seen);
    ctx.count_n("refs_ingredient", seen.refs_ingredient);
    ctx.count_n("refs_cookware", seen.refs_cookware);
    ctx.count_n("refs_step", seen.refs_step);
    ctx.count_n("refs_section", seen.refs_section);
    ctx.count_n("components_not_in_any_step", seen.unowned_components);
    ctx.count_n("empty_text_paragraphs(observation)", seen.empty_text_paragraphs);
    ctx.count_n("steps_checked", seen.steps);
    if recipe.ingredients.len() + recipe.cookware.len() + recipe.timers.len() > 0 {
        ctx.nontrivial(case);
    }
    if ctx.evals % 20000 == 1 {
        ctx.sample(serde_json::json!({"input": case.input, "ext": case.ext, "valid": valid, "ingredients": recipe.ingredients.len(), "sections": recipe.sections.len()}));
    }
    for (c, m) in bad {
        ctx.violation(case, "invariant", &c, m);
    }
}

/// reference-rich fragments; sequences of them exercise every relation kind
pub const FRAGMENTS: &[&str] = &[
    "@a{1}", "@&a{2}", "@A{}", "@&A", "@b", "@&b{1%g}", "#p", "#&p", "#&P{2}", "@&(1)d{}", "@&(~1)d{}", "@&(2)d{}", "@&(=1)d{}",
    "@&(=~1)d{}", "@&(~2)d{}", "@+a{}", "@-a", "@?a", "@&c{}", "~t{1%min}", "~{}", "~n", "text", "\\", "\n\n", "\n", "= s\n", "=\n",
    "> p\n\n", ">> [mode]: components\n", ">> [mode]: steps\n", ">> [mode]: text\n", ">> [mode]: all\n", ">> [duplicate]: ref\n",
    ">> [duplicate]: new\n", "@&+a{}", "@&a{}(n)", "@ß{} @&SS{}", "180 C ", "#p|q{}", "#&q", "@a|z{}", "@&z{}", "@./x/a{}", "@&./x/a{1}", "~ {}", "~[- c -]{}",
    "@a{}[- c -]@b{}", "@&(=~1)d{} ", ">\n\n", "> \n\n", "#a", "#&a", "@p{}", "@&p", ">> [mode]: text\nintro\n\n>> [mode]: all\n", "@&(~0)d{}", "@&(=~0)d{}", "@&(40000)d{}", "@&(=~65535)d{}", "@&d{}", "x\n\n@&(~1)d{}\n\n= s\n\n", "@&q{}",
];

pub fn run(ctx: &mut Ctx) {
    let mut ps = Parsers::new();
    let ext_all = Extensions::all().bits();
    // exhaustive fragment sequences
    let maxlen: u32 = if ctx.is_thorough() { 4 } else { 3 };
    let total = alphabet::count_upto(FRAGMENTS.len(), maxlen);
    ctx.notes.insert("fragment_sequences".into(), total.into());
    ctx.notes.insert("fragment_max_len".into(), maxlen.into());
    let seps = [" ", "\n", "\n\n"];
    let mut s = String::new();
    let mut idx = ctx.shard as u64;
    while idx < total {
        // decode idx into fragment sequence
        let mut rem = idx;
        let n = FRAGMENTS.len() as u64;
        let mut len = 0u32;
        loop {
            let c = n.pow(len);
            if rem < c {
                break;
            }
            rem -= c;
            len += 1;
        }
        let mut digits = vec![0usize; len as usize];
        for i in (0..len as usize).rev() {
            digits[i] = (rem % n) as usize;
            rem /= n;
        }
        for sep in seps {
            s.clear();
            for (k, d) in digits.iter().enumerate() {
                if k > 0 {
                    s.push_str(sep);
                }
                s.push_str(FRAGMENTS[*d]);
            }
            for (e, c) in [(ext_all, "bundled"), (Extensions::COMPAT.bits(), "empty")] {
                check_case(ctx, &mut ps, &Case::new("fragments", s.as_str(), e, c));
            }
            if len < 2 {
                break;
            }
        }
        ctx.count("inputs_fragment_sequences");
        idx += ctx.nshards as u64;
    }
    // random longer sequences under random subsets
    let subsets = crate::core::all_extension_subsets();
    let n = ctx.budget(60_000, 6_000_000);
    for _ in 0..n {
        let k = ctx.rng.range(4, 14);
        s.clear();
        for _ in 0..k {
            s.push_str(FRAGMENTS[ctx.rng.below(FRAGMENTS.len())]);
            s.push_str(*ctx.rng.pick(&[" ", " ", "\n", "\n\n", ""]));
        }
        let e = if ctx.rng.chance(2, 3) { ext_all } else { subsets[ctx.rng.below(subsets.len())].bits() };
        let c = if ctx.rng.coin() { "bundled" } else { "empty" };
        check_case(ctx, &mut ps, &Case::new("fragments_random", s.as_str(), e, c));
        ctx.count("inputs_fragment_random");
    }
    let p = G2 {
        exh_quick: 2,
        exh_thorough: 3,
        random_quick: 60_000,
        random_thorough: 3_000_000,
        extra_subsets: 2,
        both_converters: true,
        ..Default::default()
    };
    workload::g2(ctx, &p, "g2", |ctx, case| check_case(ctx, &mut ps, case));
}

pub fn replay(ctx: &mut Ctx, case: &Case) {
    let mut ps = Parsers::new();
    check_case(ctx, &mut ps, case);
}
