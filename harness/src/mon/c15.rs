//! C15 — recipes survive serialization (JSON round trip, byte-identical re-serialization).

use crate::core::{Case, Ctx, Parsers, Rng};
use crate::gen::alphabet::{self, ALPHABET, SEEDS};
use crate::gen::recipe::{self as g, feat, GenOpts};
use cooklang::convert::System;
use cooklang::quantity::Number;
use cooklang::{Extensions, ScalableRecipe, ScaledRecipe, Value};
use serde_json::json;

fn num_finite(n: &Number) -> bool {
    match n {
        Number::Regular(x) => x.is_finite(),
        Number::Fraction { err, .. } => err.is_finite(),
    }
}
fn value_finite(v: &Value) -> bool {
    match v {
        Value::Number(n) => num_finite(n),
        Value::Range { start, end } => num_finite(start) && num_finite(end),
        Value::Text(_) => true,
    }
}
fn yaml_finite(v: &serde_yaml::Value) -> bool {
    match v {
        serde_yaml::Value::Number(n) => n.as_f64().map(|x| x.is_finite()).unwrap_or(true),
        serde_yaml::Value::Sequence(s) => s.iter().all(yaml_finite),
        serde_yaml::Value::Mapping(m) => m.iter().all(|(k, v)| yaml_finite(k) && yaml_finite(v)),
        serde_yaml::Value::Tagged(t) => yaml_finite(&t.value),
        _ => true,
    }
}
/// (non-string key somewhere, tagged value somewhere)
fn yaml_shape(v: &serde_yaml::Value) -> (bool, bool) {
    match v {
        serde_yaml::Value::Sequence(s) => s.iter().map(yaml_shape).fold((false, false), |a, b| (a.0 || b.0, a.1 || b.1)),
        serde_yaml::Value::Mapping(m) => m.iter().fold((false, false), |a, (k, v)| {
            let kv = yaml_shape(v);
            let kk = yaml_shape(k);
            (a.0 || !k.is_string() || kv.0 || kk.0, a.1 || kv.1 || kk.1)
        }),
        serde_yaml::Value::Tagged(t) => {
            let i = yaml_shape(&t.value);
            (i.0, true)
        }
        _ => (false, false),
    }
}

fn scalable_finite(r: &ScalableRecipe) -> bool {
    use cooklang::ScalableValue as SV;
    let sv = |v: &SV| match v {
        SV::Fixed(v) | SV::Linear(v) => value_finite(v),
    };
    r.ingredients.iter().all(|i| i.quantity.as_ref().map(|q| sv(q.value())).unwrap_or(true))
        && r.cookware.iter().all(|c| c.quantity.as_ref().map(sv).unwrap_or(true))
        && r.timers.iter().all(|t| t.quantity.as_ref().map(|q| sv(q.value())).unwrap_or(true))
        && r.inline_quantities.iter().all(|q| value_finite(q.value()))
        && r.metadata.map.iter().all(|(k, v)| yaml_finite(k) && yaml_finite(v))
}
fn scaled_finite(r: &ScaledRecipe) -> bool {
    r.ingredients.iter().all(|i| i.quantity.as_ref().map(|q| value_finite(q.value())).unwrap_or(true))
        && r.cookware.iter().all(|c| c.quantity.as_ref().map(value_finite).unwrap_or(true))
        && r.timers.iter().all(|t| t.quantity.as_ref().map(|q| value_finite(q.value())).unwrap_or(true))
        && r.inline_quantities.iter().all(|q| value_finite(q.value()))
        && r.scaled_data().map(|d| d.target.factor().is_finite()).unwrap_or(true)
}

fn meta_cause(m: &cooklang::Metadata) -> &'static str {
    let (nsk, tagged) = m.map.iter().fold((false, false), |a, (k, v)| {
        let kv = yaml_shape(v);
        (a.0 || !k.is_string() || kv.0, a.1 || kv.1)
    });
    if nsk {
        "metadata_non_string_key"
    } else if tagged {
        "metadata_tagged_value"
    } else {
        "other"
    }
}

pub fn check_case(ctx: &mut Ctx, ps: &mut Parsers, case: &Case) {
    ctx.begin(case);
    let parser = ps.parser(case.ext, &case.conv).clone();
    let conv = parser.converter().clone();
    let Ok(r) = crate::core::guarded(|| parser.parse(&case.input)) else { return };
    let valid = r.is_valid();
    let Some(rec) = r.into_output() else {
        ctx.count("no_output");
        return;
    };
    if !scalable_finite(&rec) {
        ctx.count("non_finite_numbers_not_judged");
        return;
    }
    ctx.count(if valid { "scalable_valid" } else { "scalable_invalid_but_present" });
    ctx.count_n("ingredients_with_recipe_reference", rec.ingredients.iter().filter(|i| i.reference.is_some()).count() as u64);
    let cause = meta_cause(&rec.metadata);
    // what an application does before it stores a recipe: it looks at it. Reading through the public accessors (none of
    // them takes `&mut`) must not change what the recipe is equal to.
    let looked = crate::core::guarded(|| {
        let m = &rec.metadata;
        let mut n = 0usize;
        n += m.servings().map(|s| s.len()).unwrap_or(0);
        n += m.title().map(|s| s.len()).unwrap_or(0);
        n += m.tags().map(|t| t.len()).unwrap_or(0);
        n += m.author().map(|_| 1).unwrap_or(0) + m.source().map(|_| 1).unwrap_or(0) + m.locale().map(|_| 1).unwrap_or(0);
        n += m.time(ps.parser(case.ext, &case.conv).converter()).map(|_| 1).unwrap_or(0);
        n += m.map_filtered().count() + rec.servings().map(|s| s.len()).unwrap_or(0);
        n += rec.ingredients.iter().map(|i| i.display_name().len() + i.modifiers().bits() as usize).sum::<usize>();
        n
    });
    if looked.is_ok() {
        ctx.count("recipes_read_through_accessors_before_the_round_trip");
    }
    // 1. ScalableRecipe
    let res = crate::core::guarded(|| -> Result<(), (String, String)> {
        let s1 = serde_json::to_string(&rec).map_err(|e| ("serialize_failed".to_string(), e.to_string()))?;
        let back: ScalableRecipe = serde_json::from_str(&s1).map_err(|e| ("deserialize_failed".to_string(), format!("{e}; json {}", &s1[..s1.len().min(300)])))?;
        if back != rec {
            let a = serde_json::to_value(&rec).unwrap();
            let b = serde_json::to_value(&back).unwrap();
            let mut p = String::new();
            let d = g::json_diff(&a, &b, &mut p).map(|d| format!("at {}: {} vs {}", d.0, d.1, d.2)).unwrap_or_else(|| "JSON images equal but PartialEq says different (typed difference)".into());
            return Err(("roundtrip_not_equal".into(), d));
        }
        let s2 = serde_json::to_string(&back).map_err(|e| ("reserialize_failed".to_string(), e.to_string()))?;
        if s1 != s2 {
            return Err(("reserialization_not_identical".into(), format!("{} vs {}", &s1[..s1.len().min(200)], &s2[..s2.len().min(200)])));
        }
        Ok(())
    });
    match res {
        Err(p) => ctx.panic_violation(case, "serde(ScalableRecipe)", p),
        Ok(Err((c, m))) => ctx.violation(case, if cause == "other" { "scalable" } else { "roundtrip" }, &format!("{c}|{cause}"), m),
        Ok(Ok(())) => {
            ctx.count("scalable_roundtrip_ok");
            if !rec.ingredients.is_empty() || !rec.metadata.map.is_empty() {
                ctx.nontrivial(case);
            }
        }
    }
    // 2. ScaledRecipe: default / scaled, then converted
    let mut variants: Vec<(&str, Option<f64>, Option<System>)> = vec![("default", None, None), ("scaled", Some(2.5), None), ("scaled+metric", Some(1.0 / 3.0), Some(System::Metric)), ("scaled+imperial", Some(3.0), Some(System::Imperial))];
    // case-specific factors ("arbitrary factors"): each alone and followed by a conversion to either system
    if let Some(fs) = case.params.get("factors").and_then(|v| v.as_array()) {
        for f in fs.iter().filter_map(|x| x.as_f64()) {
            variants.push(("scaled", Some(f), None));
            variants.push(("scaled+imperial", Some(f), Some(System::Imperial)));
            variants.push(("scaled+metric", Some(f), Some(System::Metric)));
        }
    }
    for (label, f, sys) in variants {
        let Ok(Some(rec)) = crate::core::guarded(|| parser.parse(&case.input).into_output()) else { return };
        let res = crate::core::guarded(|| -> Result<bool, (String, String)> {
            let mut s = match f {
                None => rec.default_scale(),
                Some(f) => rec.scale(f, &conv),
            };
            if let Some(sys) = sys {
                let _ = s.convert(sys, &conv);
            }
            if !scaled_finite(&s) {
                return Ok(false);
            }
            // what the run actually exercised: fractions with a recorded error, in particular errors below f64::EPSILON
            for q in s.ingredients.iter().filter_map(|i| i.quantity.as_ref()) {
                let nums: Vec<&Number> = match q.value() {
                    Value::Number(n) => vec![n],
                    Value::Range { start, end } => vec![start, end],
                    Value::Text(_) => vec![],
                };
                for n in nums {
                    match n {
                        Number::Fraction { err, .. } if *err != 0.0 && err.abs() < f64::EPSILON => TINY.with(|t| t.set(t.get() + 1)),
                        Number::Fraction { err, .. } if *err != 0.0 => FRAC_ERR.with(|t| t.set(t.get() + 1)),
                        Number::Regular(x) if x.abs() >= 9.2e18 => HUGE.with(|t| t.set(t.get() + 1)),
                        _ => {}
                    }
                }
            }
            let s1 = serde_json::to_string(&s).map_err(|e| ("serialize_failed".to_string(), e.to_string()))?;
            let back: ScaledRecipe = serde_json::from_str(&s1).map_err(|e| ("deserialize_failed".to_string(), format!("{e}; json {}", &s1[..s1.len().min(300)])))?;
            // no PartialEq for the Scaled payload: compare the PartialEq parts field-wise
            if back.metadata != s.metadata || back.sections != s.sections || back.ingredients != s.ingredients || back.cookware != s.cookware || back.timers != s.timers || back.inline_quantities != s.inline_quantities {
                let a = serde_json::to_value(&s).unwrap();
                let b = serde_json::to_value(&back).unwrap();
                let mut p = String::new();
                let d = g::json_diff(&a, &b, &mut p).map(|d| format!("at {}: {} vs {}", d.0, d.1, d.2)).unwrap_or_else(|| {
                    // the JSON images agree (the serialization itself lost something): show the first part that differs
                    let first = s.ingredients.iter().zip(&back.ingredients).find(|(x, y)| x != y).map(|(x, y)| format!("ingredient {:?} vs {:?}", x.quantity, y.quantity));
                    let first = first.or_else(|| s.cookware.iter().zip(&back.cookware).find(|(x, y)| x != y).map(|(x, y)| format!("cookware {:?} vs {:?}", x.quantity, y.quantity)));
                    let first = first.or_else(|| s.timers.iter().zip(&back.timers).find(|(x, y)| x != y).map(|(x, y)| format!("timer {:?} vs {:?}", x.quantity, y.quantity)));
                    format!("JSON images equal but the values differ: {}", first.unwrap_or_else(|| "metadata / sections / inline quantities".into()))
                });
                return Err(("roundtrip_not_equal".into(), d));
            }
            if back.is_default_scaled() != s.is_default_scaled() {
                return Err(("scaled_payload_differs".into(), String::new()));
            }
            let s2 = serde_json::to_string(&back).map_err(|e| ("reserialize_failed".to_string(), e.to_string()))?;
            if s1 != s2 {
                let pos = s1.bytes().zip(s2.bytes()).position(|(a, b)| a != b).unwrap_or(0);
                return Err(("reserialization_not_identical".into(), format!("first difference at byte {pos}: {:?} vs {:?}", &s1[pos.saturating_sub(40)..(pos + 40).min(s1.len())], &s2[pos.saturating_sub(40)..(pos + 40).min(s2.len())])));
            }
            Ok(true)
        });
        match res {
            Err(p) => ctx.panic_violation(case, "serde(ScaledRecipe)", p),
            Ok(Err((c, m))) => ctx.violation(case, if cause == "other" { label } else { "roundtrip" }, &format!("{c}|{cause}"), m),
            Ok(Ok(true)) => ctx.count(&format!("scaled_roundtrip_ok:{label}")),
            Ok(Ok(false)) => ctx.count("non_finite_numbers_not_judged"),
        }
    }
    for (cell, name) in [(&TINY, "scaled_fractions_with_error_below_epsilon"), (&FRAC_ERR, "scaled_fractions_with_error"), (&HUGE, "scaled_numbers_above_2^63")] {
        let n = cell.with(|t| t.replace(0));
        if n > 0 {
            ctx.count_n(name, n);
        }
    }
    if ctx.evals % 4000 == 1 {
        ctx.sample(json!({"input": case.input, "ext": case.ext, "valid": valid}));
    }
}

thread_local! {
    static TINY: std::cell::Cell<u64> = const { std::cell::Cell::new(0) };
    static FRAC_ERR: std::cell::Cell<u64> = const { std::cell::Cell::new(0) };
    static HUGE: std::cell::Cell<u64> = const { std::cell::Cell::new(0) };
}

/// numeric corner family: values and factors chosen so that scaled amounts land a few ulp from a fraction the
/// imperial units accept (tiny recorded errors), on huge integers (2^53, 2^63, 2^64, 10^19, 10^30, 10^300) and on tiny decimals
fn numeric_family(ctx: &mut Ctx, ps: &mut Parsers) {
    const VALUES: &[&str] = &[
        "0.1", "0.2", "0.3", "0.7", "1.1", "0.05", "0.15", "2.2", "1", "3", "7", "0.35", "1/3", "2/3", "1 1/3", "1/7", "0.142857", "0.333", "0.3333333333333333",
        "9007199254740993", "9223372036854775807", "9223372036854775808", "18446744073709551616", "10000000000000000000", "4000000000",
        "1000000000000000000000000000000", "0.000000000000000000001", "123456789.123456789",
    ];
    const UNITS: &[&str] = &["cup", "tsp", "tbsp", "oz", "lb", "fl oz", "pint", "g", "kg", "ml", "l", "grains", ""];
    let big300 = format!("1{}", "0".repeat(300));
    let n = ctx.budget(3_000, 900_000);
    let all = Extensions::all().bits();
    for _ in 0..n {
        let mut text = String::new();
        let k = ctx.rng.range(1, 4);
        for j in 0..k {
            let v = if ctx.rng.chance(1, 40) { big300.as_str() } else { *ctx.rng.pick(VALUES) };
            let u = *ctx.rng.pick(UNITS);
            let lock = if ctx.rng.chance(1, 8) { "=" } else { "" };
            if ctx.rng.chance(1, 6) {
                let v2 = *ctx.rng.pick(VALUES);
                text.push_str(&format!("@i{j}{{{lock}{v}-{v2}%{u}}} "));
            } else if u.is_empty() {
                text.push_str(&format!("@i{j}{{{lock}{v}}} "));
            } else {
                text.push_str(&format!("@i{j}{{{lock}{v}%{u}}} "));
            }
        }
        text.push_str(&format!("#p{{{}}} ~{{{}%min}}", ctx.rng.pick(VALUES), ctx.rng.pick(VALUES)));
        if ctx.rng.chance(1, 3) {
            text = format!(">> servings: {}\n{text}", ctx.rng.pick(&["3", "7", "3|6", "12"]));
        }
        let (p, q) = (ctx.rng.range(1, 12) as f64, ctx.rng.range(1, 12) as f64);
        let factors = json!([p / q, *ctx.rng.pick(&[10.0 / 3.0, 1.0 / 7.0, 0.1, 1e-6, 1e6, 4e9, 1e15, 0.0, 1e-320, f64::MIN_POSITIVE, 1e300]), ctx.rng.log_uniform(1e-3, 1e3)]);
        check_case(ctx, ps, &Case::new("numeric", text, all, "bundled").with(json!({"factors": factors})));
        ctx.count("inputs_numeric_corners");
    }
}

const FRONT: &[&str] = &[
    "title: T\ntags: [a, b]\nnested: {a: {b: [1, 2.5, true, ~, 'x']}}\nservings: [2, 4]",
    "a: 1\nb: 2.5\nc: true\nd: ~\ne: 'str'\nf: [1, [2, [3]]]\ng: -7\nh: 1e3\ni: 0x10\nj: 1_000",
    "time: {prep: 10, cook: 1h}\nauthor: {name: A, url: 'https://x.y'}",
    "big: 18446744073709551615\nneg: -9223372036854775808\nfloat: 0.1\nsmall: 5e-324",
    "\"1\": starter\n\"2024\": x\n'true': y\n\"null\": z\n\"1.5\": w\n\"~\": v\n\"0x10\": u\n\".inf\": t",
    "1: a\n2: b",
    "true: a",
    "a: !tag b",
    "? [a, b]\n: c",
    "~: x",
    "1.5: x",
    "a: {1: b}",
    "a: [!t 1]",
];

pub fn run(ctx: &mut Ctx) {
    let mut ps = Parsers::new();
    let all = Extensions::all().bits();
    if ctx.shard == 0 {
        // string keys that read like numbers / booleans / null, through the `>>` syntax (always strings)
        for k in ["2024", "1", "true", "null", "1.5", "~", "0x10", "-7", "1e3", "yes", "off"] {
            let input = format!(">> {k}: best vintage so far\n>> author: me\n\nOpen the @wine{{1%bottle}}.\n");
            check_case(ctx, &mut ps, &Case::new("front_matter", input, all, "bundled"));
            ctx.count("inputs_front_matter");
        }
        // a recipe ingredient defined with the recipe modifier and referenced later; every modifier combination that
        // a valid recipe can hold
        for input in [
            "Prepare the @@pizza dough{1%kg} the day before.\n\nStretch the @&pizza dough{} on the #tray.\n",
            "@-a{1} @?b{2} @@c{3} @-?@d{} @&a @&b @&c @&d{1} #-p #?q #&p #&q{2}\n",
            ">> [mode]: components\n@x{1} #y\n>> [mode]: steps\n@x @+z{2} #y #+w\n",
            // empty and blank notes, aliases next to them: `Some("")` is not `None`
            "Season with @salt{1%tsp}() and @pepper{}( ) in the #pan{}() and #pot|p{}(\u{a0}).\n",
            "@a|b{}() @&a{} #c{1}( ) ~t{1%min}\n",
        ] {
            check_case(ctx, &mut ps, &Case::new("modifiers", input, all, "bundled"));
            ctx.count("inputs_modifier_combinations");
        }
        for f in FRONT {
            for body in ["", "@a{1%kg} and #b{2} ~{5%min}", "= s\n@x{1 1/2%cup} @&x{2}"] {
                let input = format!("---\n{f}\n---\n{body}\n");
                check_case(ctx, &mut ps, &Case::new("front_matter", input, all, "bundled"));
                ctx.count("inputs_front_matter");
            }
        }
    }
    // metadata keys that are spelled like the fields of the serialised structures, holding every YAML shape: a reader
    // that guesses the layout from the content must not confuse the user's data with the wrapper
    if ctx.shard == 0 {
        for k in ["map", "metadata", "sections", "ingredients", "cookware", "timers", "inline_quantities", "data", "content", "name", "value", "type", "quantity", "Ok", "Some", "raw"] {
            for val in ["{lat: 43.7, lon: 10.4}", "{a: {b: [1, 2]}}", "[1, two, {three: 3}]", "plain text", "7", "{}", "[]", "~", "{map: {map: 1}}", "{type: text, value: x}"] {
                let input = format!("---\ntitle: Ribollita\n{k}: {val}\n---\nBoil the @beans{{300%g}}.\n");
                check_case(ctx, &mut ps, &Case::new("front_matter", input, all, "bundled"));
                let input = format!("---\n{k}: {val}\n---\n");
                check_case(ctx, &mut ps, &Case::new("front_matter", input, 0, "empty"));
                ctx.count("inputs_front_matter");
                ctx.count("inputs_front_matter_field_named_keys");
            }
        }
    }
    // ingredients that reference other recipes by path (`./`, `../`, back slashes; empty, doubled and trailing segments)
    if ctx.shard == 0 {
        for name in ["./sauces/tomato", "./sauces//tomato", "./sauces/", "../a/../b/x", "./x", ".//", "./", "../", "./a b/c d", ".\\x\\y", "..\\x", "./é/漢 字", "./a/b/c/d/e/f", "./sauces/tomato.cook", "./.", "./.."] {
            for tail in ["{}", "{1%cup}", "{=2}", "|t{1}", "{}(n)"] {
                let input = format!("Pour the @{name}{tail} over the @pasta{{200%g}} and @&pasta{{1%kg}}.\n\nThen @@{name}{{}} again.\n");
                check_case(ctx, &mut ps, &Case::new("recipe_reference", input, all, "bundled"));
                check_case(ctx, &mut ps, &Case::new("recipe_reference", format!("@{name}{tail}"), 0, "empty"));
                ctx.count("inputs_recipe_references");
            }
        }
    }
    numeric_family(ctx, &mut ps);
    let n = ctx.budget(8_000, 4_500_000);
    for i in 0..n {
        match i % 4 {
            0 | 1 | 2 => {
                let extended = i % 4 != 0;
                let opts = if extended { GenOpts::extended() } else { GenOpts::canonical() };
                let seed = ctx.rng.next();
                let mut r = Rng::new(seed);
                let spec = g::gen_spec(&mut r, &opts);
                let sp = g::spell(&spec, seed, feat::ALL, 2);
                let (ext, conv) = if extended { (all, "bundled") } else { (0, "empty") };
                check_case(ctx, &mut ps, &Case::new("g1", sp.text, ext, conv));
                ctx.count("inputs_generated");
            }
            _ => {
                // invalid-but-present outputs and odd shapes: mutated seeds
                let seed = SEEDS[ctx.rng.below(SEEDS.len())];
                let mut m = alphabet::mutate(seed, ALPHABET, &mut ctx.rng);
                for _ in 0..ctx.rng.below(3) {
                    m = alphabet::mutate(&m, ALPHABET, &mut ctx.rng);
                }
                check_case(ctx, &mut ps, &Case::new("mutated", m, all, "bundled"));
                ctx.count("inputs_mutated");
            }
        }
    }
}

pub fn replay(ctx: &mut Ctx, case: &Case) {
    let mut ps = Parsers::new();
    check_case(ctx, &mut ps, case);
}
