//! C02 — core-syntax recipes parse identically under every extension subset; with an
//! extension disabled its syntax is ordinary core text.

use crate::core::{all_extension_subsets, Case, Ctx, Parsers, Rng};
use crate::gen::recipe::{self as g, feat, GenOpts};
use cooklang::quantity::{ScalableValue, Value};
use cooklang::{Extensions, ScalableRecipe};
use serde_json::{json, Value as J};

fn parse_image(ps: &mut Parsers, text: &str, ext: u32) -> Result<(Vec<String>, Option<J>), crate::core::PanicRec> {
    parse_image_with(ps, text, ext, "bundled")
}

fn parse_image_with(ps: &mut Parsers, text: &str, ext: u32, conv: &str) -> Result<(Vec<String>, Option<J>), crate::core::PanicRec> {
    let parser = ps.parser(ext, conv).clone();
    let r = crate::core::guarded(|| parser.parse(text))?;
    let errors: Vec<String> = r.report().errors().map(|e| e.message.to_string()).collect();
    let img = r.output().map(|o| serde_json::to_value(o).unwrap());
    Ok((errors, img))
}

/// Part A: one core spelling under all subsets
pub fn check_core(ctx: &mut Ctx, ps: &mut Parsers, subsets: &[u32], text: &str, expected: Option<&J>) {
    check_core_with(ctx, ps, subsets, text, expected, "bundled")
}

pub fn check_core_with(ctx: &mut Ctx, ps: &mut Parsers, subsets: &[u32], text: &str, expected: Option<&J>, conv: &str) {
    let case0 = Case::new("core", text, 0, conv);
    let mut first: Option<(u32, J)> = None;
    let mut visited = 0;
    for e in subsets {
        visited += 1;
        let case = Case::new("core", text, *e, conv);
        ctx.begin(&case);
        match parse_image_with(ps, text, *e, conv) {
            Err(p) => {
                // a core recipe has to parse (to the same recipe) under EVERY subset: a panic under this one is this
                // property's business too, not only C03's
                ctx.violation(&case, "core_identical", &format!("panic_under_subset|{}", crate::core::strip_digits(&p.message).chars().take(60).collect::<String>()), format!("core recipe makes the parser panic under extensions {:#x}: {} at {}", e, p.message, p.location));
                return;
            }
            Ok((errors, img)) => {
                if !errors.is_empty() {
                    ctx.violation(&case, "core_identical", &format!("error_under_subset|{}", disabled_or_enabled(*e)), format!("core recipe has errors under extensions {:#x}: {errors:?}", e));
                    return;
                }
                let Some(img) = img else {
                    ctx.violation(&case, "core_identical", "no_output", format!("no output under {:#x}", e));
                    return;
                };
                match &first {
                    None => {
                        if let Some(exp) = expected {
                            let mut p = String::new();
                            if let Some((path, a, b)) = g::json_diff(exp, &img, &mut p) {
                                ctx.violation(&case, "core_identical", &format!("differs_from_model|{}", g::path_class(&path)), format!("under {:#x} at {path}: expected {a} parsed {b}", e));
                                return;
                            }
                        }
                        first = Some((*e, img));
                    }
                    Some((e0, i0)) => {
                        if *i0 != img {
                            let mut p = String::new();
                            let d = g::json_diff(i0, &img, &mut p).unwrap_or_default();
                            let diff_bits = Extensions::from_bits_retain(e0 ^ e);
                            ctx.violation(&case, "core_identical", &format!("image_differs|{}", g::path_class(&d.0)), format!("extensions {:#x} vs {:#x} (differing flags {diff_bits:?}) at {}: {} vs {}", e0, e, d.0, d.1, d.2));
                            return;
                        }
                    }
                }
            }
        }
    }
    ctx.count_n("subset_parses", visited);
    ctx.nontrivial(&case0);
    if ctx.evals % 500 == 1 {
        ctx.sample(json!({"core_recipe": text, "subsets_visited": visited, "distinct_images": 1}));
    }
}

fn disabled_or_enabled(e: u32) -> String {
    format!("{:?}", Extensions::from_bits_retain(e))
}

// ---- Part B

struct Converse {
    name: &'static str,
    /// the extension whose syntax is used
    ext: Extensions,
    variants: &'static [&'static str],
    check: fn(&ScalableRecipe, &str) -> Result<(), String>,
    /// extension bits that must be ON in the subsets used (besides `ext` being off); 0 = none
    need: u32,
    /// text placed before the host (front matter has to be at the very top)
    prefix: &'static str,
}

const BIT_INTERMEDIATE_ONLY: u32 = 1 << 11;

fn ingredient<'a>(r: &'a ScalableRecipe, name: &str) -> Result<&'a cooklang::Ingredient<ScalableValue>, String> {
    r.ingredients.iter().find(|i| i.name == name).ok_or_else(|| format!("no ingredient named {name:?}; have {:?}", r.ingredients.iter().map(|i| &i.name).collect::<Vec<_>>()))
}

fn text_value(q: Option<&cooklang::Quantity<ScalableValue>>, want: &str) -> Result<(), String> {
    let q = q.ok_or("no quantity")?;
    match q.value() {
        ScalableValue::Fixed(Value::Text(t)) if t == want => {
            if q.unit().is_some() && !want.contains('%') {
                // unit handled by caller
            }
            Ok(())
        }
        other => Err(format!("value is {other:?}, expected text {want:?}")),
    }
}

const CONVERSE: &[Converse] = &[
    Converse {
        name: "alias",
        ext: Extensions::COMPONENT_ALIAS,
        variants: &["@white wine|wine{}", "@white wine|wine{1%l}", "#big pot|pot{}", "~low|high heat{5%min}", "@half|and|half{1%cup}", "#jug|pitcher|carafe{}", "@a||b{}"],
        check: |r, v| {
            if v.matches('|').count() > 1 {
                let name = v[1..].split('{').next().unwrap();
                let found = if v.starts_with('#') { r.cookware.iter().any(|c| c.name == name && c.alias.is_none()) } else { r.ingredients.iter().any(|i| i.name == name && i.alias.is_none()) };
                if found { Ok(()) } else { Err(format!("no component named {name:?} (every `|` stays in the name)")) }
            } else if v.starts_with('~') {
                r.timers.iter().find(|t| t.name.as_deref() == Some("low|high heat")).map(|_| ()).ok_or_else(|| format!("timer name should keep the `|`; timers {:?}", r.timers.iter().map(|t| &t.name).collect::<Vec<_>>()))
            } else if v.starts_with('#') {
                let c = r.cookware.iter().find(|c| c.name == "big pot|pot").ok_or("cookware name should keep the `|`")?;
                if c.alias.is_some() {
                    return Err("alias set".into());
                }
                Ok(())
            } else {
                let i = ingredient(r, "white wine|wine")?;
                if i.alias.is_some() {
                    return Err("alias set".into());
                }
                Ok(())
            }
        },
        need: 0,
        prefix: "",
    },
    Converse {
        name: "range",
        ext: Extensions::RANGE_VALUES,
        variants: &["@eggs{2-3}", "@eggs{2-3%g}", "@eggs{1.5-2%l}", "@eggs{2-3 cups}", "@eggs{1 1/2-2 kg}"],
        check: |r, v| {
            let i = ingredient(r, "eggs")?;
            let want = v.trim_start_matches("@eggs{").split(['%', '}']).next().unwrap();
            text_value(i.quantity.as_ref(), want)?;
            // `2-3 cups`: not a number, so not a value + unit either, whatever ADVANCED_UNITS says
            if !v.contains('%') && i.quantity.as_ref().unwrap().unit().is_some() {
                return Err(format!("unit {:?} split off a non-numeric value", i.quantity.as_ref().unwrap().unit()));
            }
            Ok(())
        },
        need: 0,
        prefix: "",
    },
    Converse {
        name: "advanced_units",
        ext: Extensions::ADVANCED_UNITS,
        variants: &["@water{1 kg}", "@water{1 1/2 cups}", "@water{.5 l}", "@water{2-3 kg}", "@water{=1 kg}"],
        check: |r, v| {
            let i = ingredient(r, "water")?;
            let want = v.trim_start_matches("@water{").trim_end_matches('}').trim_start_matches('=');
            text_value(i.quantity.as_ref(), want)?;
            if i.quantity.as_ref().unwrap().unit().is_some() {
                return Err("unit set".into());
            }
            Ok(())
        },
        need: 0,
        prefix: "",
    },
    Converse {
        name: "modes",
        ext: Extensions::MODES,
        variants: &[">> [mode]: steps\n@thing{}", ">> [duplicate]: ref\n@salt{2%g}", ">> [mode]: components\n@thing{} words"],
        check: |r, v| {
            let key = if v.contains("[mode]") { "[mode]" } else { "[duplicate]" };
            let val = r.metadata.map.get(key).and_then(|v| v.as_str()).ok_or(format!("no plain metadata entry {key}"))?;
            let want = v.split(": ").nth(1).unwrap().split('\n').next().unwrap();
            if val != want {
                return Err(format!("metadata {key} = {val:?}"));
            }
            let name = if v.contains("@thing") { "thing" } else { "salt" };
            let i = r.ingredients.iter().rfind(|i| i.name == name).ok_or("ingredient missing")?;
            if !i.relation.is_definition() || i.relation.is_defined_in_step() != Some(true) {
                return Err("mode switch took effect".into());
            }
            Ok(())
        },
        need: 0,
        prefix: "",
    },
    Converse {
        name: "inline_quantities",
        ext: Extensions::INLINE_QUANTITIES,
        variants: &["Heat to 180 °C now", "Add 2 kg of it", "Wait 5 min or so"],
        check: |r, v| {
            if !r.inline_quantities.is_empty() {
                return Err("inline quantity found".into());
            }
            let found = r.sections.iter().flat_map(|s| &s.content).any(|c| match c {
                cooklang::Content::Step(st) => st.items.iter().any(|i| matches!(i, cooklang::Item::Text { value } if value.contains(v))),
                _ => false,
            });
            if !found {
                return Err("text not kept as one item".into());
            }
            Ok(())
        },
        need: 0,
        prefix: "",
    },
    Converse {
        name: "timer_requires_time",
        ext: Extensions::TIMER_REQUIRES_TIME,
        variants: &["~rest", "~rest{}", "Let it ~cool down"],
        check: |r, v| {
            let name = if v.contains("cool") { "cool" } else { "rest" };
            let t = r.timers.iter().find(|t| t.name.as_deref() == Some(name)).ok_or("timer missing")?;
            if t.quantity.is_some() {
                return Err("timer has a quantity".into());
            }
            Ok(())
        },
        need: 0,
        prefix: "",
    },
    Converse {
        name: "modifiers",
        ext: Extensions::COMPONENT_MODIFIERS,
        variants: &["@&salt{}", "@-thing{}", "@?thing{1%g}", "@+thing{}", "#?pan{}", "#&pot{}", "~-ish{10%min}", "~&rest{5%min}", "~+x{1%min}", "~?y{1%min}"],
        check: |r, v| {
            let name = v[1..].split('{').next().unwrap();
            if v.starts_with('~') {
                return r.timers.iter().find(|t| t.name.as_deref() == Some(name)).map(|_| ()).ok_or_else(|| format!("no timer named {name:?}; timers {:?}", r.timers.iter().map(|t| &t.name).collect::<Vec<_>>()));
            }
            if v.starts_with('@') {
                let i = ingredient(r, name)?;
                if !i.modifiers().is_empty() {
                    return Err(format!("modifiers {:?}", i.modifiers()));
                }
            } else {
                let c = r.cookware.iter().find(|c| c.name == name).ok_or(format!("no cookware {name:?}"))?;
                if !c.modifiers().is_empty() {
                    return Err(format!("modifiers {:?}", c.modifiers()));
                }
            }
            Ok(())
        },
        need: 0,
        prefix: "",
    },
    Converse {
        name: "intermediate",
        ext: Extensions::INTERMEDIATE_PREPARATIONS,
        variants: &["@&(2)dough{}", "@&(1)dough{}", "@&(=1)dough{}"],
        check: |r, v| {
            let name = v[1..].split('{').next().unwrap();
            let i = ingredient(r, name)?;
            if !i.relation.is_definition() {
                return Err("became a reference".into());
            }
            Ok(())
        },
        need: 0,
        prefix: "",
    },
    // INTERMEDIATE off but MODIFIERS on: `&` is the reference modifier and `(1)` stays in the name
    Converse {
        name: "intermediate_with_modifiers",
        ext: Extensions::from_bits_retain(BIT_INTERMEDIATE_ONLY),
        variants: &["@(1)dough{} and @&(1)dough{}", "@(=1)dough{2%g} then @&(=1)dough{1%g}", "@(2)dough{} and the @&(2)dough{}"],
        check: |r, v| {
            let name = v[1..].split('{').next().unwrap();
            let idx: Vec<usize> = r.ingredients.iter().enumerate().filter(|(_, i)| i.name == name).map(|(k, _)| k).collect();
            if idx.len() != 2 {
                return Err(format!("expected two ingredients named {name:?}, have {:?}", r.ingredients.iter().map(|i| &i.name).collect::<Vec<_>>()));
            }
            let second = &r.ingredients[idx[1]];
            match second.relation.references_to() {
                Some((t, cooklang::model::IngredientReferenceTarget::Ingredient)) if t == idx[0] => Ok(()),
                other => Err(format!("second {name:?} should be a plain reference to the first, relation is {other:?}")),
            }
        },
        need: Extensions::COMPONENT_MODIFIERS.bits(),
        prefix: "",
    },
    // MODES off and a front matter present: `>>` lines are ordinary step text, the switch has no effect
    Converse {
        name: "modes_below_front_matter",
        ext: Extensions::MODES,
        variants: &[">> [mode]: text

Mix @thing{} well", ">> [mode]: components

Mix @thing{} well", ">> [duplicate]: ref

Mix @thing{} and @thing{}", ">> [mode]: steps

Mix @thing{} well"],
        check: |r, v| {
            let line = v.split('\n').next().unwrap();
            if r.metadata.map.keys().any(|k| k.as_str().is_some_and(|k| k.starts_with('['))) {
                return Err("bracketed key entered the metadata although a front matter is present".into());
            }
            let found = r.sections.iter().flat_map(|s| &s.content).any(|c| match c {
                cooklang::Content::Step(st) => st.items.iter().any(|i| matches!(i, cooklang::Item::Text { value } if value.contains(line))),
                _ => false,
            });
            if !found {
                return Err(format!("{line:?} is not kept as step text"));
            }
            let things: Vec<_> = r.ingredients.iter().filter(|i| i.name == "thing").collect();
            let want = v.matches("@thing").count();
            if things.len() != want || things.iter().any(|i| !i.relation.is_definition() || i.relation.is_defined_in_step() != Some(true)) {
                return Err(format!("the switch took effect: {} ingredient(s) `thing`, relations {:?}", things.len(), things.iter().map(|i| &i.relation).collect::<Vec<_>>()));
            }
            Ok(())
        },
        need: 0,
        prefix: "---\ntitle: x\n---\n",
    },
];

const HOSTS: &[(&str, &str)] = &[
    ("", ""),
    ("Mix @salt{1%g} in a #pot.\n\n", ""),
    ("", "\n\nServe with @salt{1%g}."),
    ("Mix @salt{1%g} in a #pot.\n\n", "\n\nCook ~{5%min}.\n"),
    ("= Prep\n\nCut the @onion{1}.\n\n", "\n\n= End\n\nDone.\n"),
    ("> A note.\n\n", "\n\n> Another.\n"),
    ("Use #pot{} and @salt{1%g}, then ", ""),
    ("Use #pot{} and ", " then @salt{1%g}."),
    ("Take #bowls{2} and add ", "."),
    ("Wait ~{5%min} in #pans{1/2} then ", " and @salt{2%g}"),
];

pub fn check_converse(ctx: &mut Ctx, ps: &mut Parsers, subsets: &[u32]) {
    let mut k = 0u64;
    for c in CONVERSE {
        for v in c.variants {
            for (hi, (pre, post)) in HOSTS.iter().enumerate() {
                // multi-line constructs (mode switches) only as their own block
                if v.contains('\n') && (hi >= 6) {
                    continue;
                }
                // `~rest` forms are inline; `>>` forms need their own line: all hosts end in a block break except 6,7
                k += 1;
                if !ctx.mine(k) {
                    continue;
                }
                let text = format!("{}{pre}{v}{post}", c.prefix);
                // subsets in which none of the construct's extension bits is on (and the needed ones are)
                let lacking: Vec<u32> = subsets.iter().copied().filter(|e| !Extensions::from_bits_retain(*e).intersects(c.ext) && e & c.need == c.need).collect();
                let mut first: Option<J> = None;
                for e in &lacking {
                    let case = Case::new(&format!("converse:{}", c.name), text.as_str(), *e, "bundled");
                    ctx.begin(&case);
                    let parser = ps.parser(*e, "bundled").clone();
                    let r = match crate::core::guarded(|| parser.parse(&text)) {
                        Ok(r) => r,
                        Err(p) => {
                            ctx.violation(&case, "converse", &format!("{}|panic", c.name), format!("with {:?} disabled {v:?} makes the parser panic: {} at {}", c.ext, p.message, p.location));
                            continue;
                        }
                    };
                    let errors: Vec<String> = r.report().errors().map(|e| e.message.to_string()).collect();
                    if !errors.is_empty() {
                        ctx.violation(&case, "converse", &format!("{}|error", c.name), format!("with {:?} disabled {v:?} gives errors {errors:?}", c.ext));
                        continue;
                    }
                    let Some(out) = r.output() else { continue };
                    if let Err(m) = (c.check)(out, v) {
                        ctx.violation(&case, "converse", &format!("{}|not_core_reading", c.name), format!("with {:?} disabled (extensions {:#x}) {v:?}: {m}", c.ext, e));
                        continue;
                    }
                    if c.name == "modes" {
                        // the bracketed key is plain metadata for the metadata-only parse as well
                        if let Ok(mr) = crate::core::guarded(|| parser.parse_metadata(&text)) {
                            if mr.output().is_some_and(|m| *m != out.metadata) {
                                ctx.violation(&case, "converse", "modes|metadata_only_parse_differs", format!("with MODES disabled (extensions {:#x}) parse_metadata gives {:?}, parse gives {:?}", e, mr.output().map(|m| serde_json::to_string(m).unwrap_or_default()), serde_json::to_string(&out.metadata).unwrap_or_default()));
                                continue;
                            }
                        }
                    }
                    let img = serde_json::to_value(out).unwrap();
                    match &first {
                        None => first = Some(img),
                        Some(f) => {
                            if *f != img {
                                let mut p = String::new();
                                let d = g::json_diff(f, &img, &mut p).unwrap_or_default();
                                ctx.violation(&case, "converse", &format!("{}|image_differs|{}", c.name, g::path_class(&d.0)), format!("subsets lacking {:?} disagree at {}: {} vs {}", c.ext, d.0, d.1, d.2));
                            }
                        }
                    }
                    ctx.nontrivial(&case);
                    ctx.count(&format!("converse_ok:{}", c.name));
                }
            }
        }
    }
}

pub fn run(ctx: &mut Ctx) {
    let mut ps = Parsers::new();
    let subsets: Vec<u32> = all_extension_subsets().iter().map(|e| e.bits()).collect();
    ctx.notes.insert("extension_subsets".into(), subsets.len().into());
    check_converse(ctx, &mut ps, &subsets);
    // core texts the generator does not write: stray markers, lone braces and parentheses, operators, numbers without
    // units — no model, the comparison across all 192 subsets is the oracle (no error, one image)
    const STRAY: &[&str] = &[
        "Serve @ room temperature with #forks{}.", "Item # 2 goes in the #bowl{}.", "Wait ~ 10 minutes, then add @salt{1%g}.", "mail me @ home # 3 ~ later",
        "a } b and a ) c ( d", "50% of the @milk{1%l} | half", "2 > 1 = true : ok", "x * y + z / w ? no & yes", "Use 3 of them, or 4.5, or 1/2.",
        "end with a marker @", "end with a hash #", "end with a tilde ~", "@ start with a stray marker", "text with \\@escaped and \\{brace\\}",
        "A step.\n\n> A paragraph with @ and # and ~ in it.\n\n= A section = with @ stray\n\nLast @salt{}.", "tab\there @a{1}\tthere", "a  b   c @a{} d",
        // text values with more than one dash (dates, codes) are no `a-b` range; recipe references are core syntax
        "Open the @wine{2015-10-03} and add @eggs{1-2-3}.", "Use #tin{20-25-cm} and @x{1 - 2 - handfuls} or @y{1/2-1-2%kg}.",
        // below a front matter a `>>` line is ordinary step text, also when it sits between the lines of a step
        "---\ntitle: Pancakes\n---\n\nMix the @flour{200%g} with the @milk{300%ml}\n>> tip: sift the flour first\nand whisk until smooth.\n\nFry in a #pan{} for ~{2%min}.\n",
        "---\ntitle: x\n---\nStep one\n>> not metadata\n>>\nstill step one @a{1}.\n\n>> alone: here\n\nLast.\n",
        // decimals without integer part as timer values; a one-line paragraph that starts with a bracketed word and a colon;
        // a number followed by a capitalised word that is no unit as written
        "Whisk the @eggs{3} and let them rest ~{.05%h} or ~{.5%min} then ~x{.01%s}, add @y{.05%kg}.",
        "Toast the @bread{2%slices} in a #pan{}.\n\n[Optional]: rub them with @garlic{1%clove} while still hot.\n\n[mode]: not a switch\n\nServe.\n",
        "Knead as in step 1. In a bowl, let the dough rest 2 H or 3 M, then 4 S and 5 D of 6 G or 7 Min.",
        // numbers written with commas in plain step text
        "Fold the dough until it has about 1,000 layers, use 1,5 parts of water and 3,4 or 5 eggs at 37,5 degrees.",
        // a locked text value with blanks after the `=`; a brace-less component directly followed by `|word`
        "Season with @salt{= to taste} and @pepper{=  a pinch} or @x{=[- c -] some}.",
        "Deglaze with @wine|vino and scrape the #pan|sarten well, then @salt| x and @oil|.",
        // a dash with a number on one side only is text, not half a range
        "Chill the @stock{-4%°C} and set the #dial{-2}, add @x{2-} @y{- 3} and @z{7 -%kg}.",
        "Serve with @./sauces/Hollandaise{150%g} and @../basics/rice{} or @.\\local\\stock{1%l}.", "Top with @./Pesto{} and more @./Pesto{2%tbsp}.",
    ];
    for (k, t) in STRAY.iter().enumerate() {
        if ctx.mine(k as u64) {
            ctx.count("core_stray_texts");
            check_core(ctx, &mut ps, &subsets, t, None);
        }
    }
    // a converter in which a later layer took spellings away from a unit (override): `9"` and `2 tbs` are plain words then,
    // under every subset — the inline-quantity scan and the timer checks look units up in the converter
    {
        match override_layer_converter() {
            Some(c) => {
                ps.register("override_layer", c);
                for (k, t) in ["Line a 9\" round #tin{} with paper.", "Add 2 tbs of @butter{} and wait 5 mins or 3 minutes.", "Cut 3\" strips, about 2 tbs. each, rest 10 mins."].iter().enumerate() {
                    if ctx.mine(k as u64) {
                        ctx.count("core_texts_with_units_removed_by_a_layer");
                        check_core_with(ctx, &mut ps, &subsets, t, None, "override_layer");
                    }
                }
            }
            None => ctx.harness_errors.push("C02: the override layer does not build".into()),
        }
    }
    // a front matter whose (quoted) keys are spelled like the configuration keys of the MODES extension: the front matter is
    // plain metadata under every subset — the keys stay in the metadata and configure nothing
    for (k, (key, value)) in [("[duplicate]", "ref"), ("[mode]", "components"), ("[define]", "text"), ("[mode]", "steps"), ("[duplicate]", "reference")].iter().enumerate() {
        if !ctx.mine(k as u64) {
            continue;
        }
        for quote in ["'", "\""] {
            let text = format!("---\ntitle: Tea\n{quote}{key}{quote}: {value}\n---\nBoil the @water{{1%l}}. Add more @water{{2%l}}.\n\nServe in a #cup.\n");
            ctx.count("core_front_matter_with_bracketed_keys");
            check_core(ctx, &mut ps, &subsets, &text, None);
            let case = Case::new("core", text.as_str(), 0, "bundled");
            if let Ok((_, Some(img))) = parse_image(&mut ps, &text, 0) {
                let kept = img["metadata"]["map"][*key] == J::String(value.to_string());
                let defs = img["ingredients"].as_array().map(|a| a.iter().filter(|i| i["relation"]["type"] == "definition").count()).unwrap_or(0);
                let steps = img["sections"][0]["content"].as_array().map(|a| a.iter().filter(|c| c["type"] == "step").count()).unwrap_or(0);
                if !kept || defs != 2 || steps != 2 || img["cookware"].as_array().map(|a| a.len()) != Some(1) {
                    ctx.violation(&case, "core_identical", "front_matter_key_acts_as_configuration", format!("front matter key {key:?}: kept in the metadata: {kept}; water definitions {defs} (2 expected), steps {steps} (2 expected)"));
                }
            }
        }
    }
    // texts that the parser with no extension either accepts or refuses (odd `>>` lines, below a front matter too): if it
    // accepts one without an error, the text is a core recipe and every other subset has to agree
    const MAYBE_CORE: &[&str] = &[">>: serve warm", ">> k", ">> k:", ">>", ">> : ", ">> a: b: c", ">>k:", ">> k :v", "= =", "=", "> ", ">"];
    for (k, line) in MAYBE_CORE.iter().enumerate() {
        for head in ["", "---\ntitle: Pancakes\n---\n\n"] {
            if !ctx.mine((k * 2) as u64 + head.len().min(1) as u64) {
                continue;
            }
            let text = format!("{head}Mix @flour{{200%g}} and @milk{{300%ml}}.\n\n{line}\n\nServe.\n");
            let p0 = ps.parser(0, "bundled").clone();
            let accepted = matches!(crate::core::guarded(|| p0.parse(&text)), Ok(r) if !r.report().has_errors());
            if accepted {
                ctx.count("core_accepted_odd_lines");
                check_core(ctx, &mut ps, &subsets, &text, None);
            } else {
                ctx.count("odd_lines_refused_without_extensions(not judged)");
            }
        }
    }
    let n = ctx.budget(1_600, 300_000);
    let opts = GenOpts::core();
    for i in 0..n {
        let seed = ctx.rng.next();
        let mut r = Rng::new(seed);
        let spec = g::gen_spec(&mut r, &opts);
        let level = (i % 3 + 1) as u32;
        let sp = g::spell(&spec, seed ^ 0x55, feat::ALL, level);
        let Some(exp) = &sp.expected else {
            ctx.count("generator_rejects");
            continue;
        };
        ctx.count("core_recipes");
        for c in &sp.constructs {
            ctx.count(&format!("construct:{c}"));
        }
        check_core(ctx, &mut ps, &subsets, &sp.text, Some(exp));
    }
    // the canonical spec sources that are core-only by construction are also compared across subsets
    ctx.exhaustive = false;
}

fn override_layer_converter() -> Option<cooklang::Converter> {
    let layer = "[extend]\nprecedence = \"override\"\n[extend.units]\ninch = { symbols = [\"in\"] }\ntbsp = { symbols = [\"tbsp\"] }\nminute = { names = [\"minute\"], symbols = [\"min\"], aliases = [] }\n";
    toml::from_str::<cooklang::convert::UnitsFile>(layer).ok().and_then(|f| cooklang::Converter::builder().with_units_file(cooklang::convert::UnitsFile::bundled()).ok()?.with_units_file(f).ok()?.finish().ok())
}

pub fn replay(ctx: &mut Ctx, case: &Case) {
    let mut ps = Parsers::new();
    if let Some(c) = override_layer_converter() {
        ps.register("override_layer", c);
    }
    let subsets: Vec<u32> = all_extension_subsets().iter().map(|e| e.bits()).collect();
    if case.kind == "core" {
        check_core_with(ctx, &mut ps, &subsets, &case.input, None, &case.conv);
    } else {
        // re-run the whole converse table (cheap) — the case's input is one of its entries
        ctx.nshards = 1;
        ctx.shard = 0;
        check_converse(ctx, &mut ps, &subsets);
    }
}
