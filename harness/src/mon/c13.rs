//! C13 — standard metadata values are interpreted as documented.

use crate::core::{Case, Ctx, Rng};
use cooklang::convert::{PhysicalQuantity, UnitsFile};
use cooklang::metadata::RecipeTime;
use cooklang::{Converter, CooklangParser, Extensions};
use serde_json::json;

#[derive(Clone, Debug, PartialEq)]
pub enum Exp {
    /// total minutes, any value in lo..=hi accepted (exact ties)
    Minutes(u64, u64),
    Refuse,
    Servings(Vec<u32>),
    Tags(Vec<String>),
    NameUrl(Option<String>, Option<String>),
    Locale(String, Option<String>),
}

#[derive(Clone, Debug)]
pub struct MCase {
    pub key: &'static str,
    /// the value as a string (for `>>` and quoted YAML)
    pub text: String,
    /// raw YAML spelling when the typed form differs from a quoted string (numbers, lists, maps)
    pub yaml: Option<String>,
    pub exp: Exp,
    pub form: &'static str,
}

struct TimeUnits {
    /// (key, seconds)
    keys: Vec<(String, u128)>,
    has_minutes: bool,
    label: &'static str,
}

fn time_units_of(conv: &Converter, label: &'static str, renamed: Option<&[(&str, u128)]>) -> TimeUnits {
    let mut keys = Vec::new();
    if let Some(r) = renamed {
        for (k, s) in r {
            keys.push((k.to_string(), *s));
        }
    } else if conv.unit_count() == 0 {
        for (ks, s) in [(&["s", "sec", "secs", "second", "seconds"][..], 1u128), (&["m", "min", "minute", "minutes"][..], 60), (&["h", "hour", "hours"][..], 3600), (&["d", "day", "days"][..], 86400)] {
            for k in ks {
                keys.push((k.to_string(), s));
            }
        }
    } else {
        for u in conv.all_units().filter(|u| u.physical_quantity == PhysicalQuantity::Time) {
            let secs = crate::units::def_by_symbol(u.symbol()).map(|d| d.factor as u128).unwrap_or(0);
            if secs == 0 {
                continue;
            }
            for k in u.names.iter().chain(&u.symbols).chain(&u.aliases) {
                keys.push((k.to_string(), secs));
            }
        }
    }
    let has_minutes = conv.unit_count() == 0 || ["min", "minute", "minutes", "m"].iter().any(|k| conv.find_unit(k).is_some_and(|u| u.physical_quantity == PhysicalQuantity::Time)) && {
        // the implementation looks the keys up in this order and takes the first hit, whatever it is
        let first = ["min", "minute", "minutes", "m"].iter().find_map(|k| conv.find_unit(k));
        first.is_some_and(|u| u.physical_quantity == PhysicalQuantity::Time)
    };
    TimeUnits { keys, has_minutes, label }
}

/// decimal literal -> (integer, scale) with value = integer / 10^scale
fn dec(s: &str) -> (u128, u32) {
    match s.split_once('.') {
        None => (s.parse().unwrap(), 0),
        Some((a, b)) => {
            let i: u128 = format!("{}{}", if a.is_empty() { "0" } else { a }, b).parse().unwrap();
            (i, b.len() as u32)
        }
    }
}

fn minutes_exact(parts: &[(String, u128)]) -> Exp {
    // total seconds * 10^6
    let mut total: u128 = 0;
    for (n, secs) in parts {
        let (i, sc) = dec(n);
        total += i * secs * 10u128.pow(6 - sc);
    }
    let unit = 60u128 * 1_000_000;
    let fl = total / unit;
    let rem = total % unit;
    let (lo, hi) = if rem * 2 == unit { (fl, fl + 1) } else if rem * 2 > unit { (fl + 1, fl + 1) } else { (fl, fl) };
    if lo > u32::MAX as u128 {
        Exp::Refuse
    } else {
        Exp::Minutes(lo as u64, hi.min(u32::MAX as u128) as u64)
    }
}

fn duration_cases(rng: &mut Rng, tu: &TimeUnits, n_random: usize) -> Vec<MCase> {
    let mut v = Vec::new();
    let keys = ["time", "prep time", "cook time"];
    let mut push = |key: &'static str, text: String, yaml: Option<String>, exp: Exp, form: &'static str| v.push(MCase { key, text, yaml, exp, form });
    let edge: [u64; 12] = [0, 1, 59, 60, 90, 10_000, 71_582_788, 71_582_789, 4_294_967_295, 4_294_967_296, 99_999_999_999, 1_000_000];
    for (ki, key) in keys.iter().enumerate() {
        // plain minutes
        for n in edge {
            let exp = if n <= u32::MAX as u64 { Exp::Minutes(n, n) } else { Exp::Refuse };
            push(key, n.to_string(), Some(n.to_string()), exp, "integer_minutes");
        }
        // HhMm
        for h in edge {
            for m in [None, Some(0u64), Some(16), Some(59), Some(90), Some(4_294_967_295)] {
                if ki > 0 && h > 100 && m.is_some() {
                    continue;
                }
                let text = match m {
                    None => format!("{h}h"),
                    Some(m) => format!("{h}h{m}m"),
                };
                let total = h as u128 * 60 + m.unwrap_or(0) as u128;
                let exp = if total <= u32::MAX as u128 { Exp::Minutes(total as u64, total as u64) } else { Exp::Refuse };
                // `Nh` alone is also a number-unit pair when `h` is a known time unit; same meaning
                push(key, text, None, exp, "HhMm");
            }
        }
        for m in edge {
            let exp = if m <= u32::MAX as u64 { Exp::Minutes(m, m) } else { Exp::Refuse };
            // `Nm` is the HhMm form (minutes) whatever `m` means to the converter
            push(key, format!("{m}m"), None, exp, "HhMm");
        }
    }
    // number-unit pairs with every spelling of every time unit
    let nums = ["1", "2", "30", "45", "90", "1.5", "0.5", ".5", "0.25", "100000000", "59"];
    for (k, secs) in &tu.keys {
        for n in ["1", "30", "1.5", "90"] {
            for attached in [false, true] {
                if attached && k.chars().next().is_some_and(|c| c.is_ascii_digit() || c == '.') {
                    continue;
                }
                let text = if attached { format!("{n}{k}") } else { format!("{n} {k}") };
                // `Nh` / `Nm` / `NhMm` are claimed first by the HhMm form: minutes/hours whatever the converter says
                let hhmm = attached && (k == "h" || k == "m") && !n.contains('.');
                let exp = if hhmm {
                    minutes_exact(&[(n.to_string(), if k == "h" { 3600 } else { 60 })])
                } else if tu.has_minutes {
                    minutes_exact(&[(n.to_string(), *secs)])
                } else {
                    Exp::Refuse
                };
                push("time", text, None, exp, "number_unit_pair");
            }
        }
    }
    for _ in 0..n_random {
        let np = rng.range(1, 4);
        let mut parts = Vec::new();
        let mut text = String::new();
        for i in 0..np {
            let (k, secs) = &tu.keys[rng.below(tu.keys.len())];
            let n = *rng.pick(&nums);
            if i > 0 {
                text.push_str(*rng.pick(&[" ", "  ", " ", "\u{a0}", "\t", "\u{2009}"]));
            }
            let attached = rng.chance(1, 3);
            text.push_str(n);
            if !attached {
                // any white space separates the number from its unit, also the no-break kinds that typography puts there
                text.push_str(*rng.pick(&[" ", " ", " ", "\u{a0}", "\u{202f}", "\u{3000}"]));
            }
            text.push_str(k);
            parts.push((n.to_string(), *secs));
        }
        // a single attached pair like 30m / 2h is the HhMm form; skip those (covered above)
        if np == 1 && !text.contains(char::is_whitespace) && (text.ends_with('h') || text.ends_with('m')) {
            continue;
        }
        // several attached h/m parts without blanks cannot occur (blank separated)
        let exp = if tu.has_minutes { minutes_exact(&parts) } else { Exp::Refuse };
        let key = *rng.pick(&keys);
        push(key, text, None, exp, "number_unit_pairs");
    }
    // outside the documented forms
    let mut outside: Vec<String> = ["soon", "-5", "inf", "NaN", "-inf", "infinity", "1e400", "5 parsecs", "1h1h", "h", "5 min 3", "1hour30min", "5 kg", "1 hour and a half", "1:30", "- 5 min", "5 -min", "1h -5m", "4294967296", "100000000 h", "71582789h", "99999999999999999999"]
        .iter()
        .map(|s| s.to_string())
        .collect();
    // near misses of the unit spellings the converter in use knows: one letter more, one letter less, doubled
    let known: Vec<&str> = tu.keys.iter().map(|(k, _)| k.as_str()).collect();
    let mut near: Vec<String> = Vec::new();
    for k in &known {
        near.push(format!("{k}s"));
        near.push(format!("{k}{k}"));
        if k.chars().count() > 1 {
            let mut c: Vec<char> = k.chars().collect();
            c.pop();
            near.push(c.into_iter().collect());
        }
    }
    near.sort();
    near.dedup();
    for n in near {
        if !known.contains(&n.as_str()) && !n.is_empty() {
            outside.push(format!("500 {n}"));
        }
    }
    if !tu.keys.iter().any(|(k, _)| k == "m") {
        outside.push("5 m".into());
    }
    if !tu.keys.iter().any(|(k, _)| k == "min") {
        outside.push("5 min".into());
    }
    for o in outside {
        for key in keys {
            push(key, o.clone(), None, Exp::Refuse, "outside_duration");
        }
    }
    // nothing at all is no duration either
    for key in keys {
        push(key, "(empty string, yaml)".to_string(), Some("\"\"".to_string()), Exp::Refuse, "outside_duration_yaml");
        push(key, "(blank string, yaml)".to_string(), Some("'  '".to_string()), Exp::Refuse, "outside_duration_yaml");
    }
    // typed YAML values that are not durations
    for (y, t) in [("-5", "-5"), ("1.5e400", "1.5e400 (yaml)"), ("[1, 2]", "[1, 2] (yaml)"), ("true", "true (yaml)"), ("~", "null (yaml)"), ("4294967296", "4294967296"), ("-0.5", "-0.5 (yaml)")] {
        push("time", t.to_string(), Some(y.to_string()), Exp::Refuse, "outside_duration_yaml");
    }
    // `prep time` / `cook time` are plain durations: the mapping form belongs to `time` only
    for key in ["prep time", "cook time"] {
        for (y, t) in [("{prep: 10 min, cook: 1h}", "{prep: 10 min, cook: 1h} (yaml)"), ("{prep: 10 min}", "{prep: 10 min} (yaml)"), ("[1, 2]", "[1, 2] (yaml)"), ("true", "true (yaml)"), ("-5", "-5")] {
            push(key, t.to_string(), Some(y.to_string()), Exp::Refuse, "outside_duration_yaml");
        }
    }
    v
}

fn other_cases() -> Vec<MCase> {
    let mut v = Vec::new();
    let mut push = |key: &'static str, text: &str, yaml: Option<&str>, exp: Exp, form: &'static str| v.push(MCase { key, text: text.to_string(), yaml: yaml.map(String::from), exp, form });
    // servings
    push("servings", "4", Some("4"), Exp::Servings(vec![4]), "servings_number");
    push("servings", "0", Some("0"), Exp::Servings(vec![0]), "servings_number");
    push("servings", "4294967295", Some("4294967295"), Exp::Servings(vec![4294967295]), "servings_number");
    push("servings", "2|4|8", None, Exp::Servings(vec![2, 4, 8]), "servings_pipes");
    push("servings", "2 | 4 |8", None, Exp::Servings(vec![2, 4, 8]), "servings_pipes");
    push("servings", "5 cups worth", None, Exp::Servings(vec![5]), "servings_text");
    push("servings", "2 people|4 people", None, Exp::Servings(vec![2, 4]), "servings_text");
    push("servings", "12|6", None, Exp::Servings(vec![12, 6]), "servings_pipes");
    // the leading number ends where the digits end, whatever follows
    push("servings", "4-6 people", None, Exp::Servings(vec![4]), "servings_text");
    push("servings", "6, generous", None, Exp::Servings(vec![6]), "servings_text");
    push("servings", "2/person|4/pair", None, Exp::Servings(vec![2, 4]), "servings_text");
    push("servings", "4(big)", None, Exp::Servings(vec![4]), "servings_text");
    push("servings", "8+|12+", None, Exp::Servings(vec![8, 12]), "servings_text");
    push("servings", "[2, '4-6 big'] (yaml)", Some("[2, '4-6 big']"), Exp::Servings(vec![2, 4]), "servings_list");
    push("servings", "[2, 4] (yaml)", Some("[2, 4]"), Exp::Servings(vec![2, 4]), "servings_list");
    push("servings", "[2, '4 big'] (yaml)", Some("[2, '4 big']"), Exp::Servings(vec![2, 4]), "servings_list");
    for (t, y) in [("2|2", None), ("2|4|2", None), ("[3, 3] (yaml)", Some("[3, 3]")), ("[3, '3 x'] (yaml)", Some("[3, '3 x']"))] {
        push("servings", t, y, Exp::Refuse, "servings_duplicates");
    }
    for (t, y) in [("many", None), ("-2", None), ("x2", None), ("2||3", None), ("4294967296", None), ("4294967296", Some("4294967296")), ("-2", Some("-2")), ("2.5 (yaml)", Some("2.5")), ("{a: 1} (yaml)", Some("{a: 1}")), ("[1, [2]] (yaml)", Some("[1, [2]]")), ("[1, true] (yaml)", Some("[1, true]")), ("|2", None), ("two", None), ("[2.5, 5] (yaml)", Some("[2.5, 5]")), ("[4, 1e1] (yaml)", Some("[4, 1e1]")), ("[1.0, 2] (yaml)", Some("[1.0, 2]")), ("[2, -3] (yaml)", Some("[2, -3]")), ("[2, 4294967296] (yaml)", Some("[2, 4294967296]"))] {
        push("servings", t, y, Exp::Refuse, "outside_servings");
    }
    // tags
    let tg = |x: &[&str]| Exp::Tags(x.iter().map(|s| s.to_string()).collect());
    push("tags", "a, b,c", None, tg(&["a", "b", "c"]), "tags_string");
    push("tags", "a,,b, ,a , c ", None, tg(&["a", "b", "c"]), "tags_string");
    push("tags", "one tag", None, tg(&["one tag"]), "tags_string");
    push("tags", "é, 漢字, 2022", None, tg(&["é", "漢字", "2022"]), "tags_string");
    push("tags", "[a, b, a] (yaml)", Some("[a, b, a]"), tg(&["a", "b"]), "tags_list");
    push("tags", "[2022, baking, ''] (yaml)", Some("[2022, baking, '']"), tg(&["2022", "baking"]), "tags_list");
    push("tags", "block list (yaml)", Some("\n  - x\n  - y"), tg(&["x", "y"]), "tags_list");
    for (t, y) in [("3 (yaml)", Some("3")), ("{a: b} (yaml)", Some("{a: b}")), ("[a, [b]] (yaml)", Some("[a, [b]]")), ("[a, {b: c}] (yaml)", Some("[a, {b: c}]")), ("true (yaml)", Some("true"))] {
        push("tags", t, y, Exp::Refuse, "outside_tags");
    }
    // author / source
    let nu = |n: Option<&str>, u: Option<&str>| Exp::NameUrl(n.map(String::from), u.map(String::from));
    for key in ["author", "source"] {
        push(key, "Rachel <https://rachel.url>", None, nu(Some("Rachel"), Some("https://rachel.url")), "name_valid_url");
        push(key, "Mom's Cookbook <http://a.b/c?d=e>", None, nu(Some("Mom's Cookbook"), Some("http://a.b/c?d=e")), "name_valid_url");
        push(key, "Rachel <not a url>", None, nu(Some("Rachel <not a url>"), None), "name_invalid_url");
        push(key, "Rachel <example.com>", None, nu(Some("Rachel <example.com>"), None), "name_invalid_url");
        push(key, "Rachel <ht tp://x.y>", None, nu(Some("Rachel <ht tp://x.y>"), None), "name_invalid_url");
        push(key, "Rachel R. Peterson", None, nu(Some("Rachel R. Peterson"), None), "name");
        push(key, "example.com/recipe", None, nu(Some("example.com/recipe"), None), "invalid_url");
        push(key, "http//x", None, nu(Some("http//x"), None), "invalid_url");
        push(key, "<not a url>", None, nu(Some("<not a url>"), None), "bracketed_invalid_url");
        push(key, "https://rachel.url/r?x=1", None, nu(None, Some("https://rachel.url/r?x=1")), "valid_url");
        push(key, "smb://host/share", None, nu(None, Some("smb://host/share")), "valid_url");
        // more than one bracketed group, brackets inside the brackets: not the `Name <Url>` form, all of it is the name
        push(key, "Rachel <https://rachel.url/recipes> <https://mirror.url>", None, nu(Some("Rachel <https://rachel.url/recipes> <https://mirror.url>"), None), "name_invalid_url");
        push(key, "Rachel <https://one.url><https://two.url>", None, nu(Some("Rachel <https://one.url><https://two.url>"), None), "name_invalid_url");
        push(key, "Rachel <https://rachel.url/a<b>", None, nu(Some("Rachel <https://rachel.url/a<b>"), None), "name_invalid_url");
        // a URL that carries another URL after its scheme (archived page, redirect)
        push(key, "https://web.archive.org/web/2019/https://example.com/apple-pie", None, nu(None, Some("https://web.archive.org/web/2019/https://example.com/apple-pie")), "valid_url");
        push(key, "Grandma's blog <https://web.archive.org/web/2019/https://example.com/apple-pie>", None, nu(Some("Grandma's blog"), Some("https://web.archive.org/web/2019/https://example.com/apple-pie")), "name_valid_url");
        push(key, "<https://r.example/go?to=http://x.example/a>", None, nu(None, Some("https://r.example/go?to=http://x.example/a")), "bracketed_valid_url");
        push(key, "<https://rachel.url>", None, nu(None, Some("https://rachel.url")), "bracketed_valid_url");
        push(key, "{name: Rachel, url: 'https://r.url'} (yaml)", Some("{name: Rachel, url: 'https://r.url'}"), nu(Some("Rachel"), Some("https://r.url")), "name_url_mapping");
        push(key, "{name: Rachel} (yaml)", Some("{name: Rachel}"), nu(Some("Rachel"), None), "name_url_mapping");
        // the fields of the mapping are trimmed like the string forms; a blank field is an absent one
        push(key, "{name: '   ', url: ' https://rachel.url '} (yaml)", Some("{name: '   ', url: ' https://rachel.url '}"), nu(None, Some("https://rachel.url")), "name_url_mapping");
        push(key, "{name: ' Rachel  ', url: ''} (yaml)", Some("{name: ' Rachel  ', url: ''}"), nu(Some("Rachel"), None), "name_url_mapping");
        push(key, "{x: y} (yaml)", Some("{x: y}"), Exp::Refuse, "outside_name_url");
        push(key, "[a] (yaml)", Some("[a]"), Exp::Refuse, "outside_name_url");
    }
    // locale
    for (t, l, c) in [("en", "en", None), ("es_ES", "es", Some("ES")), ("en_gb", "en", Some("gb")), ("ZH_cn", "ZH", Some("cn"))] {
        push("locale", t, None, Exp::Locale(l.into(), c.map(String::from)), "locale");
    }
    for t in ["e", "eng", "en_", "en_U", "en-US", "en_USA", "e1", "12", "en_U1", "_US", "en_US_x", "é_ES", "en US"] {
        push("locale", t, None, Exp::Refuse, "outside_locale");
    }
    push("locale", "5 (yaml)", Some("5"), Exp::Refuse, "outside_locale");
    v
}

fn yaml_quote(s: &str) -> String {
    format!("\"{}\"", s.replace('\\', "\\\\").replace('"', "\\\""))
}

struct Cfg {
    name: &'static str,
    parser: CooklangParser,
    tu: TimeUnits,
}

pub fn renamed_converter(with_min: bool) -> (Converter, Vec<(&'static str, u128)>) {
    let mut f = UnitsFile::bundled();
    let mk = |names: &[&str], symbols: &[&str], ratio: f64| cooklang::convert::units_file::UnitEntry {
        names: names.iter().map(|s| (*s).into()).collect(),
        symbols: symbols.iter().map(|s| (*s).into()).collect(),
        aliases: vec![],
        ratio,
        difference: 0.0,
        expand_si: false,
    };
    let (min_names, min_syms): (&[&str], &[&str]) = if with_min { (&["minuto", "minutos"], &["min"]) } else { (&["minuto", "minutos"], &["mnt"]) };
    let mut keys: Vec<(&'static str, u128)> = vec![("segundo", 1), ("segundos", 1), ("seg", 1), ("hora", 3600), ("horas", 3600), ("hr", 3600), ("día", 86400), ("días", 86400), ("minuto", 60), ("minutos", 60)];
    keys.push((if with_min { "min" } else { "mnt" }, 60));
    for g in &mut f.quantity {
        if g.quantity == PhysicalQuantity::Time {
            g.units = Some(cooklang::convert::units_file::Units::Unified(vec![
                mk(&["segundo", "segundos"], &["seg"], 1.0),
                mk(min_names, min_syms, 60.0),
                mk(&["hora", "horas"], &["hr"], 3600.0),
                mk(&["día", "días"], &[], 86400.0),
            ]));
            g.best = Some(cooklang::convert::units_file::BestUnits::Unified(vec!["seg".into(), "hr".into(), "minuto".into(), "día".into()]));
        }
    }
    // the bundled fractions table names no time unit, so it stays valid
    let conv = Converter::builder().with_units_file(f).expect("renamed units file").finish().expect("renamed converter");
    (conv, keys)
}

fn warnings_of(r: &cooklang::error::SourceReport) -> Vec<String> {
    r.warnings().map(|w| w.message.to_string()).collect()
}

pub fn check_one(ctx: &mut Ctx, cfg: &Cfg, mc: &MCase, front: bool, typed: bool) {
    check_styled(ctx, cfg, mc, front, typed, 0)
}

/// front-matter spellings of the same entry: 0 `key: v`; 1 quoted key; 2 flow mapping; 3 between other keys, CRLF;
/// 4 folded block scalar (`key: >`), author/source only
pub fn check_styled(ctx: &mut Ctx, cfg: &Cfg, mc: &MCase, front: bool, typed: bool, style: u8) {
    let value_src = if front {
        if typed { mc.yaml.clone().unwrap_or_else(|| yaml_quote(&mc.text)) } else { yaml_quote(&mc.text) }
    } else {
        mc.text.clone()
    };
    let good = match mc.key {
        "servings" => "3",
        "tags" => "t",
        "author" | "source" => "n",
        "locale" => "en",
        _ => "5",
    };
    let doc = |val: &str| {
        if !front {
            return format!(">> {}: {val}\nstep\n", mc.key);
        }
        match style {
            1 => format!("---\n\"{}\": {val}\n---\nstep\n", mc.key),
            2 => format!("---\n{{ zz: 1, {}: {val} }}\n---\nstep\n", mc.key),
            3 => format!("---\r\nzz: Café é\r\nnote: é\r\n{}: {val}\r\nyy: 2\r\n---\r\nstep\r\n", mc.key),
            4 => format!("---\n{}: >\n  {}\n---\nstep\n", mc.key, val),
            _ => format!("---\n{}: {val}\n---\nstep\n", mc.key),
        }
    };
    // the folded block scalar takes the raw text (no quotes)
    let value_src = if front && style == 4 { mc.text.clone() } else { value_src };
    let input = doc(&value_src);
    let case = Case::new("metadata", input.as_str(), Extensions::all().bits(), cfg.name).with(json!({"key": mc.key, "value": mc.text, "front_matter": front, "typed_yaml": typed, "style": style, "form": mc.form, "expected": format!("{:?}", mc.exp)}));
    ctx.begin(&case);
    let conv = cfg.parser.converter();
    let base = match crate::core::guarded(|| cfg.parser.parse(&doc(good))) {
        Ok(r) => warnings_of(r.report()),
        Err(_) => return,
    };
    let r = match crate::core::guarded(|| cfg.parser.parse(&input)) {
        Ok(r) => r,
        Err(p) => {
            ctx.panic_violation(&case, "parse", p);
            return;
        }
    };
    let extra: Vec<String> = warnings_of(r.report()).into_iter().filter(|w| !base.contains(w)).collect();
    let warned = !extra.is_empty() || r.report().has_errors();
    let Some(recipe) = r.output() else {
        ctx.violation(&case, mc.form, "no_output", format!("no output; report {:?}", warnings_of(r.report())));
        return;
    };
    let m = &recipe.metadata;
    // what did the accessor say
    let (got, some): (String, bool) = match crate::core::guarded(|| match mc.key {
        "time" => {
            let t = m.time(conv);
            (format!("{t:?}"), t.is_some())
        }
        "prep time" | "cook time" => {
            let t = m.time(conv);
            let part = match t {
                Some(RecipeTime::Composed { prep_time, cook_time }) => if mc.key == "prep time" { prep_time } else { cook_time },
                _ => None,
            };
            (format!("{part:?}"), part.is_some())
        }
        "servings" => {
            let s = m.servings();
            (format!("{s:?}"), s.is_some())
        }
        "tags" => {
            let t = m.tags();
            (format!("{t:?}"), t.is_some())
        }
        "author" => {
            let a = m.author();
            (format!("{a:?}"), a.is_some())
        }
        "source" => {
            let a = m.source();
            (format!("{a:?}"), a.is_some())
        }
        _ => {
            let l = m.locale();
            (format!("{l:?}"), l.is_some())
        }
    }) {
        Ok(x) => x,
        Err(p) => {
            ctx.panic_violation(&case, "accessor", p);
            return;
        }
    };
    let mut bad: Option<(&str, String)> = None;
    match &mc.exp {
        Exp::Refuse => {
            if some {
                bad = Some(("outside_form_accepted", format!("accessor returned {got} for a value outside the documented forms")));
            } else if !warned {
                bad = Some(("outside_form_no_warning", format!("no warning for {:?}", mc.text)));
            }
        }
        Exp::Minutes(lo, hi) => {
            let val: Option<u32> = match mc.key {
                "time" => match m.time(conv) {
                    Some(RecipeTime::Total(t)) => Some(t),
                    _ => None,
                },
                "prep time" => match m.time(conv) {
                    Some(RecipeTime::Composed { prep_time, .. }) => prep_time,
                    _ => None,
                },
                _ => match m.time(conv) {
                    Some(RecipeTime::Composed { cook_time, .. }) => cook_time,
                    _ => None,
                },
            };
            match val {
                None => bad = Some(("documented_form_refused", format!("{:?} should read as {lo} minutes, accessor gave {got}", mc.text))),
                Some(v) if (v as u64) < *lo || (v as u64) > *hi => bad = Some(("wrong_minutes", format!("{:?} should read as {lo} minutes, accessor gave {v}", mc.text))),
                Some(_) => {
                    if warned {
                        bad = Some(("documented_form_warned", format!("{:?}: accessor accepts it but parse warned {extra:?}", mc.text)));
                    }
                }
            }
        }
        Exp::Servings(want) => {
            let s = m.servings();
            if s.as_ref() != Some(want) {
                bad = Some(("wrong_servings", format!("{:?} should give {want:?}, got {s:?}", mc.text)));
            } else if recipe.servings() != Some(want.as_slice()) {
                bad = Some(("scaling_base_differs", format!("recipe.servings() = {:?}", recipe.servings())));
            } else if warned {
                bad = Some(("documented_form_warned", format!("{extra:?}")));
            }
        }
        Exp::Tags(want) => {
            let t: Option<Vec<String>> = m.tags().map(|v| v.iter().map(|c| c.to_string()).collect());
            if t.as_ref() != Some(want) {
                bad = Some(("wrong_tags", format!("{:?} should give {want:?}, got {t:?}", mc.text)));
            } else if warned {
                bad = Some(("documented_form_warned", format!("{extra:?}")));
            }
        }
        Exp::NameUrl(n, u) => {
            let a = if mc.key == "author" { m.author() } else { m.source() };
            let g = a.as_ref().map(|a| (a.name().map(String::from), a.url().map(String::from)));
            if g != Some((n.clone(), u.clone())) {
                bad = Some((if mc.form.contains("invalid") { "name_with_invalid_url" } else { "wrong_name_url" }, format!("{:?} should give name {n:?} url {u:?}, got {g:?}", mc.text)));
            } else if warned {
                bad = Some(("documented_form_warned", format!("{extra:?}")));
            }
        }
        Exp::Locale(l, c) => {
            let g = m.locale().map(|(a, b)| (a.to_string(), b.map(String::from)));
            if g != Some((l.clone(), c.clone())) {
                bad = Some(("wrong_locale", format!("{:?} should give {l:?} {c:?}, got {g:?}", mc.text)));
            } else if warned {
                bad = Some(("documented_form_warned", format!("{extra:?}")));
            }
        }
    }
    // accessor and parse-time check agree
    if bad.is_none() && some == warned && !matches!(mc.exp, Exp::NameUrl(..)) {
        bad = Some(("accessor_and_warning_disagree", format!("accessor {got}, extra warnings {extra:?}")));
    }
    match bad {
        None => {
            ctx.nontrivial(&case);
            ctx.count(&format!("form:{}", mc.form));
            if ctx.evals % 4000 == 1 {
                ctx.sample(json!({"input": input, "converter": cfg.name, "accessor": got, "extra_warnings": extra}));
            }
        }
        Some((c, msg)) => {
            let cause = match (&mc.exp, c) {
                (Exp::Refuse, _) if mc.form.starts_with("outside_duration") => {
                    // classify by what kind of out-of-form value it is
                    let t = mc.text.trim_end_matches(" (yaml)");
                    let unrepresentable = ["inf", "NaN", "-inf", "infinity", "1e400", "-5", "4294967296", "100000000 h", "71582789h", "99999999999999999999", "1.5e400", "-0.5"].contains(&t);
                    if unrepresentable { format!("{c}|nonfinite_or_out_of_range_minutes") } else { format!("{c}|{}", mc.form) }
                }
                (Exp::Refuse, _) if mc.form == "HhMm" || mc.form == "integer_minutes" || mc.form.starts_with("number_unit") => format!("{c}|nonfinite_or_out_of_range_minutes"),
                _ => format!("{c}|{}", mc.form),
            };
            ctx.violation(&case, "metadata", &cause, format!("[{} / {}] {msg}", cfg.name, if front { "front matter" } else { ">>" }));
        }
    }
}

/// `time`, `prep time` and `cook time` together: the documentation says Metadata::time is the `time` entry "or, if
/// missing," the prep/cook pair. Every combination of valid / refused / absent, in both key orders and both syntaxes.
fn composed_time(ctx: &mut Ctx, cfg: &Cfg) {
    let vals: [(&str, Option<u32>); 3] = [("1h30m", Some(90)), ("45", Some(45)), ("soon", None)];
    let conv = cfg.parser.converter();
    for t in [None, Some(0usize), Some(1), Some(2)] {
        for p in [None, Some(0usize), Some(1), Some(2)] {
            for c in [None, Some(0usize), Some(1), Some(2)] {
                if t.is_none() && p.is_none() && c.is_none() {
                    continue;
                }
                for order in 0..2 {
                    for front in [false, true] {
                        let mut entries: Vec<(&str, &str)> = Vec::new();
                        if let Some(i) = t {
                            entries.push(("time", vals[i].0));
                        }
                        if let Some(i) = p {
                            entries.push(("prep time", vals[i].0));
                        }
                        if let Some(i) = c {
                            entries.push(("cook time", vals[i].0));
                        }
                        if order == 1 {
                            entries.reverse();
                        }
                        let body: String = entries.iter().map(|(k, v)| if front { format!("{k}: \"{v}\"\n") } else { format!(">> {k}: {v}\n") }).collect();
                        let input = if front { format!("---\n{body}---\nstep\n") } else { format!("{body}step\n") };
                        let case = Case::new("metadata", input.as_str(), Extensions::all().bits(), cfg.name).with(json!({"form": "time_with_prep_and_cook"}));
                        ctx.begin(&case);
                        let Ok(r) = crate::core::guarded(|| cfg.parser.parse(&input)) else { continue };
                        let Some(rec) = r.output() else { continue };
                        let want = match t {
                            Some(i) => vals[i].1.map(RecipeTime::Total),
                            None => {
                                let (pp, cc) = (p.and_then(|i| vals[i].1), c.and_then(|i| vals[i].1));
                                if pp.is_some() || cc.is_some() { Some(RecipeTime::Composed { prep_time: pp, cook_time: cc }) } else { None }
                            }
                        };
                        match crate::core::guarded(|| rec.metadata.time(conv)) {
                            Err(pn) => ctx.panic_violation(&case, "Metadata::time", pn),
                            Ok(got) => {
                                if format!("{got:?}") != format!("{want:?}") {
                                    ctx.violation(&case, "metadata", "time_with_prep_and_cook|wrong_result", format!("[{}] Metadata::time gives {got:?}, the documented reading is {want:?}", cfg.name));
                                } else {
                                    ctx.count("form:time_with_prep_and_cook");
                                    ctx.nontrivial(&case);
                                }
                            }
                        }
                    }
                }
            }
        }
    }
}

/// the mapping form `time: {prep: .., cook: ..}`: each part that is present has to be a readable duration, otherwise the
/// whole value is refused (warning, accessor gives nothing)
fn time_mapping(ctx: &mut Ctx, cfg: &Cfg) {
    let vals: [(&str, Option<u32>); 5] = [("1h30m", Some(90)), ("45", Some(45)), ("until golden", None), ("-5", None), ("4294967296", None)];
    let conv = cfg.parser.converter();
    for p in [None, Some(0usize), Some(1), Some(2), Some(3), Some(4)] {
        for c in [None, Some(0usize), Some(1), Some(2), Some(3), Some(4)] {
            if p.is_none() && c.is_none() {
                continue;
            }
            for block in [false, true] {
                let mut parts: Vec<String> = Vec::new();
                if let Some(i) = p {
                    parts.push(format!("prep: \"{}\"", vals[i].0));
                }
                if let Some(i) = c {
                    parts.push(format!("cook: \"{}\"", vals[i].0));
                }
                let input = if block { format!("---\ntime:\n  {}\n---\nstep\n", parts.join("\n  ")) } else { format!("---\ntime: {{ {} }}\n---\nstep\n", parts.join(", ")) };
                let case = Case::new("metadata", input.as_str(), Extensions::all().bits(), cfg.name).with(json!({"form": "time_mapping"}));
                ctx.begin(&case);
                let Ok(r) = crate::core::guarded(|| cfg.parser.parse(&input)) else { continue };
                let Some(rec) = r.output() else { continue };
                let (pp, cc) = (p.map(|i| vals[i].1), c.map(|i| vals[i].1));
                let refused = pp == Some(None) || cc == Some(None);
                let want = if refused { None } else { Some(RecipeTime::Composed { prep_time: pp.flatten(), cook_time: cc.flatten() }) };
                let warned = r.report().warnings().any(|w| w.message.contains("time"));
                match crate::core::guarded(|| rec.metadata.time(conv)) {
                    Err(pn) => ctx.panic_violation(&case, "Metadata::time", pn),
                    Ok(got) => {
                        if format!("{got:?}") != format!("{want:?}") {
                            ctx.violation(&case, "metadata", "time_mapping|wrong_result", format!("[{}] Metadata::time gives {got:?}, the documented reading is {want:?}", cfg.name));
                        } else if refused && !warned {
                            ctx.violation(&case, "metadata", "time_mapping|outside_form_no_warning", format!("[{}] a part of the mapping is not a duration but nothing warns about `time`", cfg.name));
                        } else {
                            ctx.count("form:time_mapping");
                            ctx.nontrivial(&case);
                        }
                    }
                }
            }
        }
    }
}

/// a caller's metadata validator that switches the standard checks off for ONE key must not change how the other
/// standard keys of the same front matter are read
fn validator_for_one_key(ctx: &mut Ctx, cfg: &Cfg) {
    use cooklang::analysis::{CheckResult, ParseOptions};
    let seconds: [(&str, &str, bool); 6] = [("servings", "2|4|2", false), ("servings", "2|4", true), ("locale", "english", false), ("locale", "en_GB", true), ("tags", "[a, a]", false), ("author", "<x>", false)];
    for (k2, v2, valid) in seconds {
        for first_key in ["time", "title", "source"] {
            let input = format!("---\n{first_key}: overnight\n{k2}: {v2}\n---\nstep\n");
            let case = Case::new("metadata", input.as_str(), Extensions::all().bits(), cfg.name).with(json!({"form": "validator_for_one_key", "key": k2}));
            ctx.begin(&case);
            let plain = match crate::core::guarded(|| cfg.parser.parse(&input)) {
                Ok(r) => r,
                Err(_) => continue,
            };
            let opts = ParseOptions {
                recipe_ref_check: None,
                metadata_validator: Some(Box::new(move |k, _v, o| {
                    if k.as_str() == Some(first_key) {
                        o.run_std_checks(false);
                    }
                    CheckResult::Ok
                })),
            };
            let with = match crate::core::guarded(|| cfg.parser.parse_with_options(&input, opts)) {
                Ok(r) => r,
                Err(p) => {
                    ctx.panic_violation(&case, "parse_with_options", p);
                    continue;
                }
            };
            let about = |r: &cooklang::RecipeResult| -> Vec<String> { r.report().warnings().map(|w| w.message.to_string()).filter(|m| m.contains(k2)).collect() };
            let (a, b) = (about(&plain), about(&with));
            let (sa, sb) = (plain.output().map(|o| o.servings().map(|s| s.to_vec())), with.output().map(|o| o.servings().map(|s| s.to_vec())));
            let _ = valid;
            if a != b || sa != sb {
                ctx.violation(&case, "metadata", "validator_for_one_key|other_key_read_differently", format!("[{}] with the checks of {first_key:?} switched off, the warnings about {k2:?} are {b:?} (plain parse: {a:?}), servings {sb:?} (plain {sa:?})", cfg.name));
            } else {
                ctx.count("form:validator_for_one_key");
                ctx.nontrivial(&case);
            }
        }
    }
}

/// A validator that only comments on an entry (returns a warning, leaves the check options alone): the standard reading
/// of that entry — its own warning when the value is outside the documented forms, the servings it gives to the recipe —
/// is what it is without the validator, in both metadata syntaxes.
fn validator_that_only_comments(ctx: &mut Ctx, cfg: &Cfg) {
    use cooklang::analysis::{CheckResult, ParseOptions};
    for (key, value) in [("servings", "12"), ("servings", "2|4"), ("serves", "3"), ("time", "a while"), ("time", "1h30m"), ("servings", "many"), ("locale", "english"), ("tags", "a, b")] {
        for syntax in 0..2 {
            let input = if syntax == 0 { format!("---\n{key}: {value}\n---\nMix @flour{{600%g}}.\n") } else { format!(">> {key}: {value}\nMix @flour{{600%g}}.\n") };
            let case = Case::new("metadata", input.as_str(), Extensions::all().bits(), cfg.name).with(json!({"form": "validator_that_only_comments", "key": key}));
            ctx.begin(&case);
            let Ok(plain) = crate::core::guarded(|| cfg.parser.parse(&input)) else { continue };
            for verdict in 0..2 {
                let opts = ParseOptions {
                    recipe_ref_check: None,
                    metadata_validator: Some(Box::new(move |k, _v, _o| {
                        if k.as_str() == Some(key) {
                            if verdict == 0 { CheckResult::Warning(vec!["noted by the application".into()]) } else { CheckResult::Error(vec!["refused by the application".into()]) }
                        } else {
                            CheckResult::Ok
                        }
                    })),
                };
                let with = match crate::core::guarded(|| cfg.parser.parse_with_options(&input, opts)) {
                    Ok(r) => r,
                    Err(p) => {
                        ctx.panic_violation(&case, "parse_with_options", p);
                        continue;
                    }
                };
                let std_warnings = |r: &cooklang::RecipeResult| -> Vec<String> { r.report().warnings().map(|w| w.message.to_string()).filter(|m| m.contains(key) && !m.contains("application")).collect() };
                let (a, b) = (std_warnings(&plain), std_warnings(&with));
                let (sa, sb) = (plain.output().map(|o| o.servings().map(|s| s.to_vec())), with.output().map(|o| o.servings().map(|s| s.to_vec())));
                let (ma, mb) = (plain.output().map(|o| o.metadata.servings()), with.output().map(|o| o.metadata.servings()));
                if a != b || sa != sb || ma != mb {
                    ctx.violation(&case, "metadata", "validator_that_only_comments|standard_reading_changed", format!("[{}] validator verdict {verdict}: warnings of the standard check {b:?} (plain {a:?}); recipe servings {sb:?} (plain {sa:?}); metadata servings {mb:?} (plain {ma:?})", cfg.name));
                } else {
                    ctx.count("form:validator_that_only_comments");
                    ctx.nontrivial(&case);
                }
            }
        }
    }
}

pub fn run(ctx: &mut Ctx) {
    let (rc1, k1) = renamed_converter(true);
    let (rc2, k2) = renamed_converter(false);
    let bundled = Converter::bundled();
    let empty = Converter::empty();
    let cfgs = vec![
        Cfg { name: "bundled", tu: time_units_of(&bundled, "bundled", None), parser: CooklangParser::new(Extensions::all(), bundled) },
        Cfg { name: "empty", tu: time_units_of(&empty, "empty", None), parser: CooklangParser::new(Extensions::all(), empty) },
        Cfg { name: "renamed_with_min", tu: time_units_of(&rc1, "renamed_with_min", Some(&k1)), parser: CooklangParser::new(Extensions::all(), rc1) },
        Cfg { name: "renamed_without_min", tu: time_units_of(&rc2, "renamed_without_min", Some(&k2)), parser: CooklangParser::new(Extensions::all(), rc2) },
    ];
    let n_random = ctx.budget(8_000, 6_000_000) as usize;
    let others = other_cases();
    let mut k = 0u64;
    for cfg in &cfgs {
        let _ = cfg.tu.label;
        if ctx.shard == 0 {
            composed_time(ctx, cfg);
            time_mapping(ctx, cfg);
            validator_for_one_key(ctx, cfg);
            validator_that_only_comments(ctx, cfg);
        }
        let mut rng = Rng::new(ctx.seed ^ crate::core::hash64(cfg.name.as_bytes()) ^ ctx.shard as u64);
        let mut cases = if ctx.shard == 0 { duration_cases(&mut rng, &cfg.tu, n_random) } else { duration_cases(&mut rng, &cfg.tu, n_random).into_iter().filter(|c| c.form == "number_unit_pairs").collect() };
        if ctx.shard == 0 {
            cases.extend(others.iter().cloned());
        }
        for mc in &cases {
            k += 1;
            // a typed YAML spelling that is not the same text is only meaningful as typed front matter
            let yaml_only = mc.yaml.as_ref().is_some_and(|y| *y != mc.text);
            if !yaml_only {
                check_one(ctx, cfg, mc, false, false);
                check_one(ctx, cfg, mc, true, false);
            }
            if mc.yaml.is_some() {
                check_one(ctx, cfg, mc, true, true);
            }
            // other spellings of the same front-matter entry (one per case, rotating)
            let mut style = 1 + (k % 4) as u8;
            // a block-style YAML value (several lines) cannot be written inside a flow mapping
            if style == 2 && mc.yaml.as_ref().is_some_and(|y| y.contains('\n')) {
                style = 1;
            }
            if style == 4 {
                let t = mc.text.as_str();
                let plain_line = !t.is_empty() && t.trim() == t && !t.contains(['\n', '\r', '#']) && !t.starts_with(['-', '?', ':', '[', '{', '>', '|', '&', '*', '!', '%', '@', '`', '"', '\'']) && !t.contains(": ");
                if matches!(mc.key, "author" | "source") && !yaml_only && plain_line {
                    check_styled(ctx, cfg, mc, true, false, 4);
                    ctx.count("style:block_scalar");
                }
            } else {
                if !yaml_only {
                    check_styled(ctx, cfg, mc, true, false, style);
                } else {
                    check_styled(ctx, cfg, mc, true, true, style);
                }
                ctx.count(["", "style:quoted_key", "style:flow_mapping", "style:between_keys_crlf"][style as usize]);
            }
        }
    }
    ctx.notes.insert("cases_per_shard".into(), k.into());
}

pub fn replay(ctx: &mut Ctx, case: &Case) {
    // rebuild the configuration and re-judge every catalogue case with the same key/value
    let key = case.params["key"].as_str().unwrap_or("").to_string();
    let value = case.params["value"].as_str().unwrap_or("").to_string();
    let (rc1, k1) = renamed_converter(true);
    let (rc2, k2) = renamed_converter(false);
    let (conv, tu): (Converter, TimeUnits) = match case.conv.as_str() {
        "empty" => (Converter::empty(), time_units_of(&Converter::empty(), "empty", None)),
        "renamed_with_min" => (rc1.clone(), time_units_of(&rc1, "renamed_with_min", Some(&k1))),
        "renamed_without_min" => (rc2.clone(), time_units_of(&rc2, "renamed_without_min", Some(&k2))),
        _ => (Converter::bundled(), time_units_of(&Converter::bundled(), "bundled", None)),
    };
    let name: &'static str = match case.conv.as_str() {
        "empty" => "empty",
        "renamed_with_min" => "renamed_with_min",
        "renamed_without_min" => "renamed_without_min",
        _ => "bundled",
    };
    let cfg = Cfg { name, parser: CooklangParser::new(Extensions::all(), conv), tu };
    let mut rng = Rng::new(0);
    let mut all = duration_cases(&mut rng, &cfg.tu, 0);
    all.extend(other_cases());
    let front = case.params["front_matter"].as_bool().unwrap_or(false);
    let style = case.params["style"].as_u64().unwrap_or(0) as u8;
    let typed = case.params["typed_yaml"].as_bool().unwrap_or(false);
    let mut found = false;
    for mc in all.iter().filter(|m| m.key == key && m.text == value) {
        found = true;
        check_styled(ctx, &cfg, mc, front, typed, style);
    }
    if !found {
        // random pair case: judge with the recorded expectation text only
        ctx.harness_errors.push(format!("replay: case {key}={value} is not in the fixed catalogue (random number-unit case); re-run the check with the recorded seed"));
    }
}
