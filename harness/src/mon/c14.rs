//! C14 — metadata-only parsing agrees with full parsing.

use crate::core::{all_extension_subsets, Case, Ctx, Parsers};
use crate::workload::{self, G2};
use cooklang::Extensions;

pub fn check_case(ctx: &mut Ctx, ps: &mut Parsers, case: &Case) {
    ctx.begin(case);
    let input = case.input.as_str();
    let parser = ps.parser(case.ext, &case.conv).clone();
    let full = crate::core::guarded(|| parser.parse(input));
    let meta = crate::core::guarded(|| parser.parse_metadata(input));
    // one of the two readers panics where the other returns: they do not agree on this input (both panicking is C03's)
    let (full, meta) = match (full, meta) {
        (Ok(f), Ok(m)) => (f, m),
        (Ok(f), Err(p)) => {
            if f.has_output() {
                ctx.violation(case, "metadata_equal", "metadata_only_reader_panics", format!("parse returns a recipe, parse_metadata panics: {} at {}", p.message, p.location));
            }
            return;
        }
        (Err(p), Ok(m)) => {
            if m.has_output() {
                ctx.violation(case, "metadata_equal", "full_reader_panics", format!("parse_metadata returns the metadata, parse panics: {} at {}", p.message, p.location));
            }
            return;
        }
        (Err(_), Err(_)) => {
            ctx.count("panic_in_both(C03)");
            return;
        }
    };
    // the same comparison with a caller's validator that drops every key beginning with `_` (both entry points take options)
    {
        use cooklang::analysis::{CheckResult, ParseOptions};
        let opts = || ParseOptions {
            recipe_ref_check: None,
            metadata_validator: Some(Box::new(|k: &serde_yaml::Value, _v: &serde_yaml::Value, o: &mut cooklang::analysis::CheckOptions| {
                if k.as_str().is_some_and(|k| k.starts_with('_')) {
                    o.include(false);
                }
                CheckResult::Ok
            })),
        };
        if let (Ok(f2), Ok(m2)) = (crate::core::guarded(|| parser.parse_with_options(input, opts())), crate::core::guarded(|| parser.parse_metadata_with_options(input, opts()))) {
            if let (Some(r), Some(m)) = (f2.output(), m2.output()) {
                if r.metadata != *m {
                    ctx.violation(case, "metadata_equal", "with_validator", format!("with a validator dropping `_` keys: parse -> {}  parse_metadata -> {}", serde_json::to_string(&r.metadata).unwrap_or_default(), serde_json::to_string(m).unwrap_or_default()));
                } else {
                    ctx.count("both_have_output_with_validator");
                }
            }
        }
    }
    match (full.output(), meta.output()) {
        (Some(r), Some(m)) => {
            ctx.count("both_have_output");
            if !r.metadata.map.is_empty() || !m.map.is_empty() {
                ctx.nontrivial(case);
                ctx.count("both_output_nonempty_metadata");
            }
            if r.metadata != *m {
                let a = serde_json::to_string(&r.metadata).unwrap_or_default();
                let b = serde_json::to_string(m).unwrap_or_default();
                let cause = if r.metadata.map.len() != m.map.len() { "entry_count" } else if a == b { "typed_difference" } else { "entry_value_or_order" };
                ctx.violation(case, "metadata_equal", cause, format!("parse -> {a}  parse_metadata -> {b}"));
            } else if ctx.evals % 20000 == 1 {
                ctx.sample(serde_json::json!({"input": case.input, "ext": case.ext, "metadata": serde_json::to_value(m).unwrap_or_default()}));
            }
        }
        (Some(_), None) => ctx.count("only_full_has_output"),
        (None, Some(_)) => ctx.count("only_metadata_has_output"),
        (None, None) => ctx.count("neither_has_output"),
    }
}

const META_RICH: &[&str] = &[
    ">>", ">> ", ":", ": ", "k", "v", "time", "servings", "1", "2", "\n", "\r\n", " ", "---", "[mode]", "[duplicate]", "steps", "text",
    "ref", "@a{1}", "--", "[-", "-]", "\\", "=", ">", "|", "é", "[", "]", "- x", "\"", "{", "}", "components",
];

/// whole lines; sequences of them below each kind of document head exercise where `>>` entries are recognised
/// by the two scanners (after blank lines, indented, directly above step text, below a front matter, bracketed keys)
const LINES: &[&str] = &[
    ">> k: v\n", ">> [mode]: steps\n", ">> [lang]: es\n", ">> [duplicate]: ref\n", ">> [mode]: text\n", "  >> k2: v\n", "\t>> k3: v\n",
    ">> servings: 2\n", ">> time: 1h\n", "step @a{1}\n", "\n", "-- c\n", "[- c -]\n", "= sec\n", "> para\n", ">> k: v2", ">> k:\n", ">>: v\n",
    "text >> k4: v\n", ">> a: b: c\n", ">> k: v -- c\n", ">> k [- c -]: v\n", ">> k5: v\r\n", "  \n", ">> []: leftover\n", ">> draft\n", ">> [ mode ]: steps\n", ">> [mode]: components\n", "* * *\n\n", "Use @@tomato sauce{} here\n", ">> _internal: 42\n", "Add the salt \\\n", ">>vegan:\n", ">> [foo]: bar\n", ">>\t[chef]: Ann\n", ">> [mode]\u{a0}: steps\n",
];
const HEADS: &[&str] = &["", "---\ntitle: x\n---\n", "---\ntitle: x\nservings: 3\n---\n\n", "\n---\nt: 1\n---\n", "\u{feff}", "\u{feff}---\ntitle: x\n---\n", "---\n---\n", "---\n\n  \n---\n",
    // a front matter whose YAML is refused (unclosed flow sequence; not a mapping): both readers go on without it
    "---\ntags: [a, b\n---\n", "---\n- a\n- b\n---\n"];

fn line_family(ctx: &mut Ctx, ps: &mut Parsers, sample: &[u32], all: &[u32]) {
    use crate::gen::alphabet;
    let maxlen = if ctx.is_thorough() { 4 } else { 3 };
    let total = alphabet::count_upto(LINES.len(), maxlen);
    ctx.notes.insert("line_sequences".into(), total.into());
    let mut s = String::new();
    let mut idx = ctx.shard as u64;
    let thorough = ctx.is_thorough();
    while idx < total {
        alphabet::nth(LINES, idx, &mut s);
        let short = idx < alphabet::count_upto(LINES.len(), 3);
        for (hi, head) in HEADS.iter().enumerate() {
            // the 4-line sequences (thorough) go under no head and one other head in rotation
            if !short && hi != 0 && hi != 1 + (idx as usize % (HEADS.len() - 1)) {
                continue;
            }
            let text = format!("{head}{s}");
            // all 192 subsets for the bracketed-key inputs of up to 3 lines (thorough); the 4-line sequences use the sample
            let exts: &[u32] = if thorough && short && text.contains('[') { all } else { sample };
            for e in exts {
                for conv in ["bundled", "empty"] {
                    check_case(ctx, ps, &Case::new("lines", text.as_str(), *e, conv));
                }
            }
        }
        ctx.count("inputs_line_sequences");
        idx += ctx.nshards as u64;
    }
}

fn generated_recipes(ctx: &mut Ctx, ps: &mut Parsers, sample: &[u32]) {
    use crate::gen::recipe::{self as g, feat, GenOpts};
    let n = ctx.budget(3_000, 400_000);
    for i in 0..n {
        let seed = ctx.rng.next();
        let mut r = crate::core::Rng::new(seed);
        let opts = match i % 3 {
            0 => GenOpts::extended(),
            1 => GenOpts::canonical(),
            _ => GenOpts::core(),
        };
        let spec = g::gen_spec(&mut r, &opts);
        let text = g::spell(&spec, seed, feat::ALL, 1 + (i % 3) as u32).text;
        for e in sample {
            check_case(ctx, ps, &Case::new("g1", text.as_str(), *e, if e & 1 == 0 { "bundled" } else { "empty" }));
        }
        ctx.count("inputs_generated_recipes");
    }
}

pub fn run(ctx: &mut Ctx) {
    let mut ps = Parsers::new();
    let subsets = all_extension_subsets();
    // each input under a seeded sample of subsets (all 192 for bracketed keys in thorough)
    let sample: Vec<u32> = {
        let mut v = vec![Extensions::empty().bits(), Extensions::all().bits(), Extensions::MODES.bits(), (Extensions::all() - Extensions::MODES).bits()];
        let extra = if ctx.is_thorough() { 8 } else { 2 };
        for _ in 0..extra {
            v.push(subsets[ctx.rng.below(subsets.len())].bits());
        }
        v
    };
    let all: Vec<u32> = subsets.iter().map(|e| e.bits()).collect();
    let thorough = ctx.is_thorough();
    line_family(ctx, &mut ps, &sample, &all);
    generated_recipes(ctx, &mut ps, &sample);
    let p = G2 {
        exh_quick: 3,
        exh_thorough: 4,
        random_quick: 60_000,
        random_thorough: 3_000_000,
        extra_subsets: 0,
        both_converters: false,
        alphabet: META_RICH,
    };
    workload::g2(ctx, &p, "g2", |ctx, case| {
        // g2 calls once per its own two configs (empty, all); fan out on the first only
        if case.ext != 0 {
            return;
        }
        let exts: &[u32] = if thorough && case.input.contains('[') && case.input.contains(">>") { &all } else { &sample };
        for e in exts {
            for conv in ["bundled", "empty"] {
                let c = Case::new("g2", case.input.as_str(), *e, conv);
                check_case(ctx, &mut ps, &c);
            }
        }
    });
}

pub fn replay(ctx: &mut Ctx, case: &Case) {
    let mut ps = Parsers::new();
    check_case(ctx, &mut ps, case);
}
