//! Independent table of standard unit definitions (the oracle shared by C08, C09, C10).

use cooklang::convert::PhysicalQuantity as PQ;

#[derive(Clone, Copy, Debug, PartialEq)]
pub struct Def {
    pub q: PQ,
    /// amount in base units = (value + offset) * factor   (base: litre, metre, gram, second, kelvin)
    pub factor: f64,
    pub offset: f64,
}

const SI: &[(&str, f64)] = &[("k", 1e3), ("h", 1e2), ("da", 1e1), ("", 1.0), ("d", 1e-1), ("c", 1e-2), ("m", 1e-3)];

/// definition by canonical symbol
pub fn def_by_symbol(sym: &str) -> Option<Def> {
    for (base, q) in [("l", PQ::Volume), ("m", PQ::Length), ("g", PQ::Mass)] {
        for (p, f) in SI {
            if sym == format!("{p}{base}") {
                return Some(Def { q, factor: *f, offset: 0.0 });
            }
        }
    }
    let d = |q, factor| Some(Def { q, factor, offset: 0.0 });
    match sym {
        "tsp" => d(PQ::Volume, 4.92892159375e-3),
        "tbsp" => d(PQ::Volume, 3.0 * 4.92892159375e-3),
        "fl oz" => d(PQ::Volume, 29.5735295625e-3),
        "c" => d(PQ::Volume, 236.5882365e-3),
        "pt" => d(PQ::Volume, 473.176473e-3),
        "qt" => d(PQ::Volume, 946.352946e-3),
        "gal" => d(PQ::Volume, 3.785411784),
        "ft" => d(PQ::Length, 0.3048),
        "in" => d(PQ::Length, 0.0254),
        "oz" => d(PQ::Mass, 28.349523125),
        "lb" => d(PQ::Mass, 453.59237),
        "s" => d(PQ::Time, 1.0),
        "min" => d(PQ::Time, 60.0),
        "h" => d(PQ::Time, 3600.0),
        "d" => d(PQ::Time, 86400.0),
        "K" => Some(Def { q: PQ::Temperature, factor: 1.0, offset: 0.0 }),
        "°C" => Some(Def { q: PQ::Temperature, factor: 1.0, offset: 273.15 }),
        "°F" => Some(Def { q: PQ::Temperature, factor: 5.0 / 9.0, offset: 459.67 }),
        _ => None,
    }
}

/// What everyday spellings of units mean, by canonical symbol (general knowledge, not read from the units file): a
/// spelling the converter knows must resolve to a unit with this definition.
pub const SPELLINGS: &[(&str, &str)] = &[
    ("℃", "°C"), ("°C", "°C"), ("ºC", "°C"), ("C", "°C"), ("celsius", "°C"), ("℉", "°F"), ("°F", "°F"), ("ºF", "°F"), ("F", "°F"), ("fahrenheit", "°F"),
    ("kelvin", "K"), ("teaspoon", "tsp"), ("teaspoons", "tsp"), ("tsp.", "tsp"), ("tablespoon", "tbsp"), ("tablespoons", "tbsp"), ("tbsp.", "tbsp"),
    ("tbs", "tbsp"), ("tbs.", "tbsp"), ("fluid ounce", "fl oz"), ("fluid ounces", "fl oz"), ("fl. oz.", "fl oz"), ("fl. oz", "fl oz"), ("fl oz.", "fl oz"),
    ("cup", "c"), ("cups", "c"), ("pint", "pt"), ("pints", "pt"), ("quart", "qt"), ("quarts", "qt"), ("gallon", "gal"), ("gallons", "gal"),
    ("liter", "l"), ("liters", "l"), ("litre", "l"), ("litres", "l"), ("L", "l"), ("milliliter", "ml"), ("millilitres", "ml"), ("mL", "ml"), ("deciliter", "dl"),
    ("centilitre", "cl"), ("dL", "dl"), ("cL", "cl"), ("kiloliter", "kl"), ("hectolitre", "hl"), ("decaliter", "dal"),
    ("meter", "m"), ("meters", "m"), ("metre", "m"), ("metres", "m"), ("centimeter", "cm"), ("centimetres", "cm"), ("millimeter", "mm"), ("kilometre", "km"),
    ("decimeter", "dm"), ("foot", "ft"), ("feet", "ft"), ("'", "ft"), ("inch", "in"), ("inches", "in"), ("\"", "in"),
    ("gram", "g"), ("grams", "g"), ("kilogram", "kg"), ("kilograms", "kg"), ("milligram", "mg"), ("milligrams", "mg"), ("hectogram", "hg"), ("decagram", "dag"),
    ("decigram", "dg"), ("centigram", "cg"), ("ounce", "oz"), ("ounces", "oz"), ("oz.", "oz"), ("pound", "lb"), ("pounds", "lb"), ("lb.", "lb"),
    ("second", "s"), ("seconds", "s"), ("sec", "s"), ("secs", "s"), ("minute", "min"), ("minutes", "min"), ("mins", "min"), ("hour", "h"), ("hours", "h"),
    ("day", "d"), ("days", "d"),
];

/// Spanish spellings (what the words mean, by canonical symbol) for the shipped `units/spanish.toml` layer.
pub const SPELLINGS_ES: &[(&str, &str)] = &[
    ("litro", "l"), ("litros", "l"), ("mililitro", "ml"), ("mililitros", "ml"), ("taza", "c"), ("tazas", "c"), ("onza líquida", "fl oz"), ("onzas líquidas", "fl oz"),
    ("galón", "gal"), ("galones", "gal"), ("pinta", "pt"), ("pintas", "pt"), ("cuarto", "qt"), ("cuartos", "qt"), ("metro", "m"), ("metros", "m"),
    ("milimetro", "mm"), ("milimetros", "mm"), ("pie", "ft"), ("pies", "ft"), ("pulgada", "in"), ("pulgadas", "in"), ("gramo", "g"), ("gramos", "g"),
    ("miligramo", "mg"), ("miligramos", "mg"), ("kilo", "kg"), ("kilos", "kg"), ("onza", "oz"), ("onzas", "oz"), ("libra", "lb"), ("libras", "lb"),
    ("segundo", "s"), ("segundos", "s"), ("minuto", "min"), ("minutos", "min"), ("hora", "h"), ("horas", "h"), ("día", "d"), ("días", "d"),
    // the English spellings stay what they were
    ("milliliter", "ml"), ("ml", "ml"), ("cl", "cl"), ("centiliter", "cl"), ("mg", "mg"), ("kg", "kg"), ("kilogram", "kg"), ("cm", "cm"), ("mm", "mm"), ("dl", "dl"),
];

impl Def {
    pub fn to_base(&self, v: f64) -> f64 {
        (v + self.offset) * self.factor
    }
    pub fn from_base(&self, b: f64) -> f64 {
        b / self.factor - self.offset
    }
}

/// Definition of a unit written any way the bundled converter knows (resolved through the
/// converter's name index, defined through the independent table by its canonical symbol).
pub fn def_of(conv: &cooklang::Converter, key: &str) -> Option<Def> {
    let u = unit_by_exact_key(conv, key)?;
    // an everyday spelling means what everybody means by it, whatever unit the converter's data hangs it on
    if let Some((_, canonical)) = SPELLINGS.iter().find(|(s, _)| *s == key) {
        return def_by_symbol(canonical);
    }
    let d = def_by_symbol(u.symbol())?;
    if d.q != u.physical_quantity {
        return None;
    }
    Some(d)
}

/// the unit that literally declares this key (name, symbol or alias) — read from the units' data, not through the
/// converter's lookup function, so that a lookup that guesses (plural stripping, case folding, trimming) cannot make the
/// oracle share its mistake
pub fn unit_by_exact_key<'a>(conv: &'a cooklang::Converter, key: &str) -> Option<&'a cooklang::convert::Unit> {
    conv.all_units().find(|u| u.names.iter().chain(&u.symbols).chain(&u.aliases).any(|k| &**k == key))
}

pub fn close(a: f64, b: f64, rel: f64, abs: f64) -> bool {
    if a == b {
        return true;
    }
    let d = (a - b).abs();
    d <= abs || d <= rel * a.abs().max(b.abs())
}
