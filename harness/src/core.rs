//! Shared runtime of all monitors: PRNG, case record, panic capture, report.

use serde::{Deserialize, Serialize};
use serde_json::{json, Value as J};
use std::cell::RefCell;
use std::collections::{BTreeMap, HashSet};
use std::io::Write;
use std::panic::{catch_unwind, AssertUnwindSafe};

// ---------------------------------------------------------------- PRNG

#[derive(Clone)]
pub struct Rng {
    s: [u64; 4],
}

fn splitmix(x: &mut u64) -> u64 {
    *x = x.wrapping_add(0x9E3779B97F4A7C15);
    let mut z = *x;
    z = (z ^ (z >> 30)).wrapping_mul(0xBF58476D1CE4E5B9);
    z = (z ^ (z >> 27)).wrapping_mul(0x94D049BB133111EB);
    z ^ (z >> 31)
}

impl Rng {
    pub fn new(seed: u64) -> Self {
        let mut x = seed;
        Rng {
            s: [
                splitmix(&mut x),
                splitmix(&mut x),
                splitmix(&mut x),
                splitmix(&mut x),
            ],
        }
    }
    pub fn next(&mut self) -> u64 {
        let r = self.s[1].wrapping_mul(5).rotate_left(7).wrapping_mul(9);
        let t = self.s[1] << 17;
        self.s[2] ^= self.s[0];
        self.s[3] ^= self.s[1];
        self.s[1] ^= self.s[2];
        self.s[0] ^= self.s[3];
        self.s[2] ^= t;
        self.s[3] = self.s[3].rotate_left(45);
        r
    }
    /// uniform in 0..n (n > 0)
    pub fn below(&mut self, n: usize) -> usize {
        (self.next() % (n as u64)) as usize
    }
    pub fn range(&mut self, lo: usize, hi_incl: usize) -> usize {
        lo + self.below(hi_incl - lo + 1)
    }
    pub fn chance(&mut self, num: u32, den: u32) -> bool {
        (self.next() % den as u64) < num as u64
    }
    pub fn coin(&mut self) -> bool {
        self.next() & 1 == 1
    }
    pub fn f64(&mut self) -> f64 {
        (self.next() >> 11) as f64 / (1u64 << 53) as f64
    }
    pub fn pick<'a, T>(&mut self, xs: &'a [T]) -> &'a T {
        &xs[self.below(xs.len())]
    }
    pub fn log_uniform(&mut self, lo: f64, hi: f64) -> f64 {
        (lo.ln() + self.f64() * (hi.ln() - lo.ln())).exp()
    }
    pub fn shuffle<T>(&mut self, xs: &mut [T]) {
        for i in (1..xs.len()).rev() {
            let j = self.below(i + 1);
            xs.swap(i, j);
        }
    }
}

pub fn hash64(s: &[u8]) -> u64 {
    // FNV-1a 64 followed by a splitmix finaliser
    let mut h: u64 = 0xcbf29ce484222325;
    for b in s {
        h ^= *b as u64;
        h = h.wrapping_mul(0x100000001b3);
    }
    let mut x = h;
    splitmix(&mut x)
}

// ---------------------------------------------------------------- Case

/// One execution handed to a monitor; also what a replay file stores.
#[derive(Clone, Debug, Serialize, Deserialize, Default)]
pub struct Case {
    /// sub-check family inside the monitor ("parse", "pairs", ...)
    pub kind: String,
    pub input: String,
    /// extension bits (cooklang::Extensions::bits)
    pub ext: u32,
    /// "empty" | "bundled" | monitor-specific
    pub conv: String,
    #[serde(default)]
    pub params: J,
}

impl Case {
    pub fn new(kind: &str, input: impl Into<String>, ext: u32, conv: &str) -> Self {
        Case {
            kind: kind.to_string(),
            input: input.into(),
            ext,
            conv: conv.to_string(),
            params: J::Null,
        }
    }
    pub fn with(mut self, params: J) -> Self {
        self.params = params;
        self
    }
    pub fn hash(&self) -> u64 {
        let mut v = Vec::with_capacity(self.input.len() + 32);
        v.extend_from_slice(self.kind.as_bytes());
        v.push(0);
        v.extend_from_slice(self.input.as_bytes());
        v.push(0);
        v.extend_from_slice(&self.ext.to_le_bytes());
        v.extend_from_slice(self.conv.as_bytes());
        if !self.params.is_null() {
            v.extend_from_slice(self.params.to_string().as_bytes());
        }
        hash64(&v)
    }
}

// ---------------------------------------------------------------- panic capture

#[derive(Clone, Debug, Serialize, Deserialize)]
pub struct PanicRec {
    pub message: String,
    pub location: String,
    /// first frame whose source file is under /repo/
    pub repo_file: String,
    pub repo_line: u32,
    pub repo_fn: String,
    /// true when the first non-runtime frame is in the harness itself
    pub harness: bool,
    pub frames: Vec<String>,
}

thread_local! {
    static LAST_PANIC: RefCell<Option<PanicRec>> = const { RefCell::new(None) };
    static IN_GUARD: RefCell<u32> = const { RefCell::new(0) };
}

fn strip_hash(sym: &str) -> String {
    // drop the trailing ::h0123456789abcdef
    if let Some(pos) = sym.rfind("::h") {
        let tail = &sym[pos + 3..];
        if tail.len() == 16 && tail.chars().all(|c| c.is_ascii_hexdigit()) {
            return sym[..pos].to_string();
        }
    }
    sym.to_string()
}

fn analyse_backtrace(bt: &str) -> (String, u32, String, bool, Vec<String>) {
    // format:  "  12: symbol\n             at /path/file.rs:LINE:COL\n"
    let mut frames: Vec<(String, String, u32)> = Vec::new();
    let mut cur_sym: Option<String> = None;
    for line in bt.lines() {
        let t = line.trim_start();
        if let Some(rest) = t.strip_prefix("at ") {
            let mut parts = rest.rsplitn(3, ':');
            let _col = parts.next();
            let ln = parts.next().and_then(|l| l.parse::<u32>().ok()).unwrap_or(0);
            let file = parts.next().unwrap_or("").to_string();
            if let Some(s) = cur_sym.take() {
                frames.push((s, file, ln));
            }
        } else if let Some(colon) = t.find(": ") {
            if t[..colon].chars().all(|c| c.is_ascii_digit()) {
                if let Some(s) = cur_sym.take() {
                    frames.push((s, String::new(), 0));
                }
                cur_sym = Some(strip_hash(&t[colon + 2..]));
            }
        }
    }
    if let Some(s) = cur_sym.take() {
        frames.push((s, String::new(), 0));
    }
    let mut repo = (String::new(), 0u32, String::new());
    let mut harness_first = false;
    let mut decided = false;
    let mut short = Vec::new();
    for (sym, file, ln) in &frames {
        let is_repo = file.starts_with("/repo/");
        let is_harness = file.contains("/harness/src/") || file.contains("/harness_bindings/src/");
        let is_core_mod = file.contains("/harness/src/core.rs");
        if !decided {
            if is_repo {
                repo = (file.clone(), *ln, sym.clone());
                decided = true;
            } else if is_harness && !is_core_mod {
                harness_first = true;
                decided = true;
            }
        }
        if (is_repo || is_harness) && short.len() < 12 {
            short.push(format!("{sym} at {file}:{ln}"));
        }
    }
    (repo.0, repo.1, repo.2, harness_first, short)
}

pub fn install_panic_hook() {
    std::panic::set_hook(Box::new(|info| {
        let msg = if let Some(s) = info.payload().downcast_ref::<&str>() {
            s.to_string()
        } else if let Some(s) = info.payload().downcast_ref::<String>() {
            s.clone()
        } else {
            "<non-string panic payload>".to_string()
        };
        let loc = info
            .location()
            .map(|l| format!("{}:{}", l.file(), l.line()))
            .unwrap_or_default();
        let bt = std::backtrace::Backtrace::force_capture().to_string();
        let (mut rf, mut rl, rfn, mut harness, frames) = analyse_backtrace(&bt);
        if let Some(l) = info.location() {
            // the panic site itself is the most precise attribution
            if l.file().starts_with("/repo/") {
                rf = l.file().to_string();
                rl = l.line();
                harness = false;
            } else if l.file().contains("/harness/src/") && !l.file().ends_with("core.rs") {
                harness = true;
            } else if l.file().starts_with("src/") {
                // relative path of the crate under test when built as path dep
                rf = format!("/repo/{}", l.file());
                rl = l.line();
                harness = false;
            }
        }
        let rec = PanicRec {
            message: msg.clone(),
            location: loc.clone(),
            repo_file: rf,
            repo_line: rl,
            repo_fn: rfn,
            harness,
            frames,
        };
        let guarded = IN_GUARD.with(|g| *g.borrow() > 0);
        if !guarded {
            eprintln!("HARNESS-PANIC (outside guard) {msg} at {loc}\n{bt}");
        }
        LAST_PANIC.with(|p| *p.borrow_mut() = Some(rec));
    }));
}

/// Runs `f`, converting a panic into a record. Also disarms any fuel budget.
pub fn guarded<R>(f: impl FnOnce() -> R) -> Result<R, PanicRec> {
    IN_GUARD.with(|g| *g.borrow_mut() += 1);
    LAST_PANIC.with(|p| *p.borrow_mut() = None);
    let r = catch_unwind(AssertUnwindSafe(f));
    IN_GUARD.with(|g| *g.borrow_mut() -= 1);
    let _ = cooklang::verif::disarm();
    match r {
        Ok(v) => Ok(v),
        Err(_) => Err(LAST_PANIC.with(|p| p.borrow_mut().take()).unwrap_or(PanicRec {
            message: "<panic without record>".into(),
            location: String::new(),
            repo_file: String::new(),
            repo_line: 0,
            repo_fn: String::new(),
            harness: false,
            frames: vec![],
        })),
    }
}

pub fn strip_digits(s: &str) -> String {
    let mut out = String::with_capacity(s.len());
    let mut prev_digit = false;
    for c in s.chars() {
        if c.is_ascii_digit() {
            if !prev_digit {
                out.push('N');
            }
            prev_digit = true;
        } else {
            prev_digit = false;
            out.push(c);
        }
    }
    out
}

impl PanicRec {
    /// signature robust to unrelated edits: file, function, message class
    pub fn signature(&self) -> String {
        let file = self.repo_file.trim_start_matches("/repo/");
        let mut msg = strip_digits(&self.message);
        // keep only the first line and a bounded prefix; drop quoted payloads
        if let Some(p) = msg.find('\n') {
            msg.truncate(p);
        }
        let msg = generalise_message(&msg);
        // When the panic site itself is in the repository the (file, message class) pair
        // identifies it; the enclosing symbol is unreliable there because of inlining.
        // For panics raised in a dependency the first in-repo frame's function is kept.
        if self.location.starts_with("/repo/") || self.location.starts_with("src/") {
            format!("panic|{file}|{msg}")
        } else {
            let func = simplify_fn(&self.repo_fn);
            format!("panic|{file}|{func}|{msg}")
        }
    }
}

fn simplify_fn(f: &str) -> String {
    // strip closures and generic params
    let mut s = f.replace("::{{closure}}", "");
    while let Some(a) = s.find('<') {
        // remove balanced <...>
        let mut depth = 0;
        let mut end = None;
        for (i, c) in s[a..].char_indices() {
            if c == '<' {
                depth += 1
            } else if c == '>' {
                depth -= 1;
                if depth == 0 {
                    end = Some(a + i);
                    break;
                }
            }
        }
        match end {
            Some(e) => s.replace_range(a..=e, ""),
            None => break,
        }
    }
    s
}

fn generalise_message(m: &str) -> String {
    // input-dependent payloads are cut at the first quote / brace / colon-space payload
    let mut s = m.to_string();
    for pat in ["byte index N is not a char boundary", "out of range for slice", "out of bounds"] {
        if s.contains(pat) {
            return pat.to_string();
        }
    }
    // drop back-quoted expression text (assertion `left == right` failed: msg)
    while let Some(a) = s.find('`') {
        match s[a + 1..].find('`') {
            Some(b) => s.replace_range(a..=a + 1 + b, "_"),
            None => {
                s.truncate(a);
                break;
            }
        }
    }
    if let Some(p) = s.find(['"', '\'']) {
        s.truncate(p);
    }
    if s.len() > 80 {
        let mut e = 80;
        while !s.is_char_boundary(e) {
            e -= 1;
        }
        s.truncate(e);
    }
    s.trim().to_string()
}

// ---------------------------------------------------------------- report

#[derive(Clone, Debug, Serialize, Deserialize)]
pub struct Violation {
    pub sub: String,
    pub cause: String,
    pub signature: String,
    pub message: String,
    pub case: Case,
    pub profile: String,
    pub count: u64,
    #[serde(default)]
    pub panic: Option<PanicRec>,
}

#[derive(Clone, Copy, PartialEq, Eq, Debug)]
pub enum Tier {
    Quick,
    Thorough,
}

pub struct Ctx {
    pub prop: String,
    pub tier: Tier,
    pub seed: u64,
    pub shard: usize,
    pub nshards: usize,
    pub profile: String,
    pub rng: Rng,
    pub evals: u64,
    pub distinct: HashSet<u64>,
    pub distinct_cap: usize,
    pub counters: BTreeMap<String, u64>,
    pub samples: Vec<J>,
    pub violations: BTreeMap<String, Violation>,
    pub inconclusive: u64,
    pub harness_errors: Vec<String>,
    pub exhaustive: bool,
    pub notes: BTreeMap<String, J>,
    pub trace: Option<std::fs::File>,
    pub scale: f64,
    start: std::time::Instant,
}

impl Ctx {
    pub fn new(prop: &str, tier: Tier, seed: u64, shard: usize, nshards: usize, profile: &str) -> Self {
        let scale = std::env::var("VERIF_SCALE")
            .ok()
            .and_then(|s| s.parse::<f64>().ok())
            .unwrap_or(1.0);
        Ctx {
            prop: prop.to_string(),
            tier,
            seed,
            shard,
            nshards,
            profile: profile.to_string(),
            rng: Rng::new(seed ^ ((shard as u64 + 1).wrapping_mul(0xA24BAED4963EE407)) ^ hash64(prop.as_bytes())),
            evals: 0,
            distinct: HashSet::new(),
            distinct_cap: 2_000_000,
            counters: BTreeMap::new(),
            samples: Vec::new(),
            violations: BTreeMap::new(),
            inconclusive: 0,
            harness_errors: Vec::new(),
            exhaustive: false,
            notes: BTreeMap::new(),
            trace: None,
            scale,
            start: std::time::Instant::now(),
        }
    }

    /// budget helper: `quick` or `thorough` count, scaled and divided over shards
    pub fn budget(&self, quick: u64, thorough: u64) -> u64 {
        let total = match self.tier {
            Tier::Quick => quick,
            Tier::Thorough => thorough,
        } as f64
            * self.scale;
        ((total / self.nshards as f64).ceil() as u64).max(1)
    }

    pub fn is_thorough(&self) -> bool {
        self.tier == Tier::Thorough
    }

    /// true if this shard owns index `i` of an enumeration
    pub fn mine(&self, i: u64) -> bool {
        (i % self.nshards as u64) as usize == self.shard
    }

    pub fn count(&mut self, key: &str) {
        *self.counters.entry(key.to_string()).or_insert(0) += 1;
    }
    pub fn count_n(&mut self, key: &str, n: u64) {
        *self.counters.entry(key.to_string()).or_insert(0) += n;
    }

    pub fn begin(&mut self, case: &Case) {
        self.evals += 1;
        if let Some(f) = self.trace.as_mut() {
            let _ = writeln!(f, "{}", serde_json::to_string(case).unwrap());
            let _ = f.flush();
        }
    }

    pub fn nontrivial(&mut self, case: &Case) {
        if self.distinct.len() < self.distinct_cap {
            self.distinct.insert(case.hash());
        }
    }
    pub fn nontrivial_hash(&mut self, h: u64) {
        if self.distinct.len() < self.distinct_cap {
            self.distinct.insert(h);
        }
    }

    pub fn sample(&mut self, v: J) {
        // reservoir-free: keep the first few and then occasional ones
        if self.samples.len() < 4 {
            self.samples.push(v);
        } else if self.samples.len() < 8 && self.evals % 9973 == 0 {
            self.samples.push(v);
        }
    }

    pub fn violation(&mut self, case: &Case, sub: &str, cause: &str, message: String) {
        let signature = format!("{sub}|{cause}");
        self.push_violation(case, sub, cause, signature, message, None);
    }

    pub fn push_violation(
        &mut self,
        case: &Case,
        sub: &str,
        cause: &str,
        signature: String,
        message: String,
        panic: Option<PanicRec>,
    ) {
        match self.violations.get_mut(&signature) {
            Some(v) => {
                v.count += 1;
                if case.input.len() < v.case.input.len() {
                    v.case = case.clone();
                    v.message = message;
                    v.panic = panic;
                }
            }
            None => {
                self.violations.insert(
                    signature.clone(),
                    Violation {
                        sub: sub.to_string(),
                        cause: cause.to_string(),
                        signature,
                        message,
                        case: case.clone(),
                        profile: self.profile.clone(),
                        count: 1,
                        panic,
                    },
                );
            }
        }
    }

    /// A panic observed while running operation `op` of the code under test.
    pub fn panic_violation(&mut self, case: &Case, op: &str, p: PanicRec) {
        if p.harness {
            self.harness_errors
                .push(format!("harness panic in {op}: {} at {} input={:?}", p.message, p.location, case.input));
            self.inconclusive += 1;
            return;
        }
        let sig = p.signature();
        let msg = format!("{op}: panicked: {} at {} (first repo frame {} {}:{})", p.message, p.location, p.repo_fn, p.repo_file, p.repo_line);
        self.push_violation(case, op, "panic", sig, msg, Some(p));
    }

    /// run an operation of the code under test; a panic becomes a violation of `self.prop`
    pub fn op<R>(&mut self, case: &Case, op: &str, f: impl FnOnce() -> R) -> Option<R> {
        match guarded(f) {
            Ok(r) => Some(r),
            Err(p) => {
                self.panic_violation(case, op, p);
                None
            }
        }
    }

    pub fn elapsed(&self) -> f64 {
        self.start.elapsed().as_secs_f64()
    }

    pub fn finish(self, out: &str) {
        let mut hashes: Vec<u64> = self.distinct.iter().copied().collect();
        hashes.sort_unstable();
        let hpath = format!("{out}.hashes");
        let mut f = std::io::BufWriter::new(std::fs::File::create(&hpath).expect("hash file"));
        for h in &hashes {
            f.write_all(&h.to_le_bytes()).unwrap();
        }
        f.flush().unwrap();
        let report = json!({
            "property": self.prop,
            "shard": self.shard,
            "nshards": self.nshards,
            "profile": self.profile,
            "evaluations": self.evals,
            "distinct": hashes.len(),
            "distinct_capped": hashes.len() >= self.distinct_cap,
            "counters": self.counters,
            "samples": self.samples,
            "violations": self.violations.values().collect::<Vec<_>>(),
            "inconclusive": self.inconclusive,
            "harness_errors": self.harness_errors,
            "exhaustive": self.exhaustive,
            "notes": self.notes,
            "wall_s": self.start.elapsed().as_secs_f64(),
        });
        std::fs::write(out, serde_json::to_string(&report).unwrap()).expect("write report");
    }
}

/// merge sorted hash files, count distinct
pub fn merge_hashes(paths: &[String]) -> u64 {
    let mut all: Vec<u64> = Vec::new();
    for p in paths {
        if let Ok(bytes) = std::fs::read(p) {
            for c in bytes.chunks_exact(8) {
                all.push(u64::from_le_bytes(c.try_into().unwrap()));
            }
        }
    }
    all.sort_unstable();
    all.dedup();
    all.len() as u64
}

// ---------------------------------------------------------------- configs

pub use cooklang::{Converter, CooklangParser, Extensions};

/// The 192 distinct extension subsets (intermediate preparations imply modifiers).
pub fn all_extension_subsets() -> Vec<Extensions> {
    let flags = [
        Extensions::COMPONENT_MODIFIERS,
        Extensions::COMPONENT_ALIAS,
        Extensions::ADVANCED_UNITS,
        Extensions::MODES,
        Extensions::INLINE_QUANTITIES,
        Extensions::RANGE_VALUES,
        Extensions::TIMER_REQUIRES_TIME,
        Extensions::INTERMEDIATE_PREPARATIONS,
    ];
    let mut set = std::collections::BTreeSet::new();
    for m in 0u32..256 {
        let mut e = Extensions::empty();
        for (i, f) in flags.iter().enumerate() {
            if m & (1 << i) != 0 {
                e |= *f;
            }
        }
        set.insert(e.bits());
    }
    set.into_iter().map(Extensions::from_bits_retain).collect()
}

pub struct Parsers {
    pub empty: Converter,
    pub bundled: Converter,
    /// further converters registered by a monitor under a name (e.g. one built from layers)
    extra: std::collections::HashMap<String, Converter>,
    cache: std::collections::HashMap<(u32, String), CooklangParser>,
}

impl Parsers {
    pub fn new() -> Self {
        Parsers {
            empty: Converter::empty(),
            bundled: Converter::bundled(),
            extra: Default::default(),
            cache: Default::default(),
        }
    }
    pub fn register(&mut self, name: &str, conv: Converter) {
        self.extra.insert(name.to_string(), conv);
    }
    pub fn conv(&self, name: &str) -> &Converter {
        if let Some(c) = self.extra.get(name) {
            return c;
        }
        match name {
            "empty" => &self.empty,
            _ => &self.bundled,
        }
    }
    pub fn parser(&mut self, ext: u32, conv: &str) -> &CooklangParser {
        let name = if self.extra.contains_key(conv) || conv == "empty" { conv } else { "bundled" };
        let key = (ext, name.to_string());
        if !self.cache.contains_key(&key) {
            let c = self.conv(conv).clone();
            self.cache
                .insert(key.clone(), CooklangParser::new(Extensions::from_bits_retain(ext), c));
        }
        &self.cache[&key]
    }
}
