#!/usr/bin/env python3
"""Print the markdown table of DESIGN.md section 11 from seeded/*/meta.json."""
import json
import os
import sys

ROOT = os.path.dirname(os.path.dirname(os.path.abspath(__file__)))


def compact():
    """one line per change: id, property's own check result, other checks that caught it, signature"""
    out = ["| id | file(s) | caught by (quick; thorough where noted) | first signature | missed before strengthening |", "|---|---|---|---|---|"]
    for sid in sorted(os.listdir(os.path.join(ROOT, "seeded"))):
        mp = os.path.join(ROOT, "seeded", sid, "meta.json")
        if not os.path.exists(mp):
            continue
        m = json.load(open(mp))
        det = m.get("detection", {})
        q, t = det.get("quick", {}), det.get("thorough", {})
        caught = ",".join(q.get("caught_by", [])) or ("**none**" if q else "not run")
        if t.get("caught_by"):
            caught += " / thorough: " + ",".join(t["caught_by"])
        sig = ""
        for d in (q, t):
            for p in d.get("caught_by", []):
                ss = d["checks"][p]["signatures"]
                if ss and not sig:
                    sig = ss[0].split(": ")[0][:80]
        files = ", ".join(os.path.basename(f) for f in (m.get("files_touched") or []))
        missed = "yes" if (m.get("note") or "").startswith(("MISSED", "INCONCLUSIVE")) else ""
        rs = det.get("rescreen")
        if rs:
            caught += " / final re-screen: " + ("caught" if rs.get("caught") else ("inconclusive" if rs.get("inconclusive") else "**missed**"))
        out.append(f"| {sid} | {files} | {caught} | `{sig}` | {missed} |")
    print("\n".join(out))
    return 0


def design():
    """rewrite the table between the markers in DESIGN.md"""
    import io
    import contextlib
    buf = io.StringIO()
    with contextlib.redirect_stdout(buf):
        compact()
    p = os.path.join(ROOT, "DESIGN.md")
    s = open(p).read()
    a = s.index("<!-- SEEDED-TABLE-BEGIN")
    a = s.index("-->", a) + 3
    b = s.index("<!-- SEEDED-TABLE-END -->")
    s = s[:a] + "\n" + buf.getvalue() + s[b:]
    open(p, "w").write(s)
    print("DESIGN.md table updated")
    return 0


def main():
    if "--design" in sys.argv:
        return design()
    if "--compact" in sys.argv:
        return compact()
    rows = []
    for sid in sorted(os.listdir(os.path.join(ROOT, "seeded"))):
        mp = os.path.join(ROOT, "seeded", sid, "meta.json")
        if not os.path.exists(mp):
            continue
        m = json.load(open(mp))
        det = m.get("detection", {})
        q = det.get("quick", {})
        t = det.get("thorough", {})
        caught_q = ",".join(q.get("caught_by", [])) or ("—" if q else "not run")
        caught_t = ",".join(t.get("caught_by", [])) if t else ""
        sig = ""
        for p in q.get("caught_by", []) or t.get("caught_by", []):
            s = (q or t)["checks"][p]["signatures"]
            if s:
                sig = s[0].split(": ")[0][:70]
                break
        needs = (m.get("needs_to_manifest") or "").replace("\n", " ").replace("|", "\\|")
        needs = needs[:150] + ("…" if len(needs) > 150 else "")
        files = ", ".join(os.path.basename(f) for f in (m.get("files_touched") or []))
        first_missed = "yes" if (m.get("note") or "").startswith("MISSED") else ""
        rows.append(f"| {sid} | {files} | {needs} | {caught_q}{(' / thorough: ' + caught_t) if caught_t else ''} | `{sig}` | {first_missed} |")
    print("| id | file(s) | needs, in order to manifest | caught by (quick) | first signature | missed before strengthening |")
    print("|---|---|---|---|---|---|")
    print("\n".join(rows))
    return 0


if __name__ == "__main__":
    sys.exit(main())
