#!/usr/bin/env python3
"""Print the markdown table of DESIGN.md section 11 from seeded/*/meta.json."""
import json
import os
import sys

ROOT = os.path.dirname(os.path.dirname(os.path.abspath(__file__)))


def main():
    rows = []
    for sid in sorted(os.listdir(os.path.join(ROOT, "seeded"))):
        mp = os.path.join(ROOT, "seeded", sid, "meta.json")
        if not os.path.exists(mp):
            continue
        m = json.load(open(mp))
        det = m.get("detection", {})
        q = det.get("quick", {})
        t = det.get("thorough", {})
        caught_q = ",".join(q.get("caught_by", [])) or ("—" if q else "not run")
        caught_t = ",".join(t.get("caught_by", [])) if t else ""
        sig = ""
        for p in q.get("caught_by", []) or t.get("caught_by", []):
            s = (q or t)["checks"][p]["signatures"]
            if s:
                sig = s[0].split(": ")[0][:70]
                break
        needs = (m.get("needs_to_manifest") or "").replace("\n", " ").replace("|", "\\|")
        needs = needs[:150] + ("…" if len(needs) > 150 else "")
        files = ", ".join(os.path.basename(f) for f in (m.get("files_touched") or []))
        first_missed = "yes" if (m.get("note") or "").startswith("MISSED") else ""
        rows.append(f"| {sid} | {files} | {needs} | {caught_q}{(' / thorough: ' + caught_t) if caught_t else ''} | `{sig}` | {first_missed} |")
    print("| id | file(s) | needs, in order to manifest | caught by (quick) | first signature | missed before strengthening |")
    print("|---|---|---|---|---|---|")
    print("\n".join(rows))
    return 0


if __name__ == "__main__":
    sys.exit(main())
