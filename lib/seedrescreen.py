#!/usr/bin/env python3
"""Regression screen of seeded changes with the current checks, in scratch copies (does not touch /repo).

usage: lib/seedrescreen.py [-j N] <seeded id> ... | --all
For each change: lib/seedscreen.sh <slot> seeded/<id>/patch.diff <own property> quick; the verdict (violated = caught)
is stored in seeded/<id>/meta.json under detection.rescreen together with the /verif commit. The official record
(detection.quick, run against /repo itself by lib/seeddetect.py) is left untouched.
"""
import concurrent.futures
import json
import os
import subprocess
import sys

ROOT = os.path.dirname(os.path.dirname(os.path.abspath(__file__)))


def one(sid):
    meta_p = os.path.join(ROOT, "seeded", sid, "meta.json")
    meta = json.load(open(meta_p))
    prop = meta["property"]
    slot = "rs_" + sid.replace("-", "_")
    r = subprocess.run([os.path.join(ROOT, "lib/seedscreen.sh"), slot, os.path.join(ROOT, "seeded", sid, "patch.diff"), prop, "quick"], capture_output=True, text=True, errors="replace")
    out = r.stdout + r.stderr
    caught = "rc=1" in out and "violated" in out
    inconclusive = "rc=2" in out or "INCONCLUSIVE" in out
    sig = [l.strip()[:200] for l in out.splitlines() if l.startswith("   ")][:3]
    return sid, caught, inconclusive, sig, out[-400:]


def main():
    args = sys.argv[1:]
    j = 5
    if "-j" in args:
        i = args.index("-j")
        j = int(args[i + 1])
        del args[i:i + 2]
    ids = sorted(os.listdir(os.path.join(ROOT, "seeded"))) if "--all" in args or "--rest" in args else args
    if "--rest" in args:
        # only the changes that have no re-screen record yet
        ids = [i for i in ids if "rescreen" not in json.load(open(os.path.join(ROOT, "seeded", i, "meta.json"))).get("detection", {})]
    commit = subprocess.run(["git", "-C", ROOT, "log", "-1", "--format=%h"], capture_output=True, text=True).stdout.strip()
    repo_commit = subprocess.run(["git", "-C", "/repo", "log", "-1", "--format=%h"], capture_output=True, text=True).stdout.strip()
    missed = []
    with concurrent.futures.ThreadPoolExecutor(max_workers=j) as ex:
        for sid, caught, inconclusive, sig, tail in ex.map(one, ids):
            meta_p = os.path.join(ROOT, "seeded", sid, "meta.json")
            meta = json.load(open(meta_p))
            meta.setdefault("detection", {})["rescreen"] = {"tier": "quick", "caught": caught, "inconclusive": inconclusive, "first_signatures": sig, "verif_commit": commit, "repo_commit": repo_commit,
                                                            "where": "scratch worktree + scratch copy of /verif (lib/seedscreen.sh), own property's quick check"}
            json.dump(meta, open(meta_p, "w"), indent=1, ensure_ascii=False)
            print(f"{sid}: {'caught' if caught else ('INCONCLUSIVE' if inconclusive else 'MISSED')}", flush=True)
            if not caught:
                missed.append((sid, tail))
    print(f"\n{len(ids) - len(missed)} of {len(ids)} caught")
    for sid, tail in missed:
        print("NOT CAUGHT:", sid, tail.replace("\n", " | ")[-300:])
    return 0


if __name__ == "__main__":
    sys.exit(main())
