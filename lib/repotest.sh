#!/bin/sh
# runs the repository's own suite (hooks off) and prints the summary line
cd /repo && CARGO_NET_OFFLINE=true cargo nextest run --workspace --no-fail-fast --offline 2>&1 | grep -E "Summary|^\s+FAIL|^error" | head -20
