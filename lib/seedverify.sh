#!/bin/bash
# Independent confirmation of a candidate seeded change, in a scratch worktree (never in /repo):
#   lib/seedverify.sh <worktree> <candidate dir with patch.diff demo.rs meta.json>
# checks: patch applies on clean HEAD; workspace suite passes with it; demo fails with it; demo passes without.
# prints one line: VERIFY <dir> apply=ok suite=<pass|FAIL n> demo_with=<fail|PASS> demo_without=<pass|FAIL>
set -u
wt=$1; cand=$(readlink -f "$2")
loc=$(python3 -c "import json,sys; print(json.load(open('$cand/meta.json')).get('demo_location','tests/seeded_demo.rs'))" 2>/dev/null || echo tests/seeded_demo.rs)
case "$loc" in bindings/*) demodir=$wt/bindings;; *) demodir=$wt;; esac
cd "$wt" || exit 3
git checkout -- . >/dev/null 2>&1; rm -f tests/seeded_demo.rs bindings/tests/seeded_demo.rs
export CARGO_NET_OFFLINE=true
rundemo() { (cd "$demodir" && cargo test --offline --test seeded_demo >/tmp/seedverify.$$.log 2>&1); }
git apply --check "$cand/patch.diff" || { echo "VERIFY $cand apply=FAIL"; exit 1; }
git apply "$cand/patch.diff"
suite=$(cargo nextest run --workspace --no-fail-fast --offline 2>&1 | grep -E "^\s+Summary" | tail -1)
case "$suite" in *" 0 failed"*|*"passed, "*"skipped"*) ;; esac
if echo "$suite" | grep -q "failed"; then s="FAIL[$suite]"; else s="pass[$(echo $suite | grep -oE '[0-9]+ passed')]"; fi
mkdir -p "$(dirname "$wt/$loc")"; cp "$cand/demo.rs" "$wt/$loc"
if rundemo; then dw=PASS; else dw=fail; fi
if grep -q "error\[E\|could not compile" /tmp/seedverify.$$.log; then dw="COMPILE-ERROR"; fi
git checkout -- . >/dev/null 2>&1
if rundemo; then dwo=pass; else dwo=FAIL; fi
rm -f "$wt/$loc" /tmp/seedverify.$$.log
echo "VERIFY $cand apply=ok suite=$s demo_with=$dw demo_without=$dwo"
