#!/usr/bin/env python3
"""Rewrite the catalogue table of DESIGN.md Appendix B from harness/src/mon/c07.rs (CATALOGUE)."""
import os
import re
import sys

ROOT = os.path.dirname(os.path.dirname(os.path.abspath(__file__)))


def rows():
    src = open(os.path.join(ROOT, "harness/src/mon/c07.rs")).read()
    a = src.index("pub const CATALOGUE")
    b = src.index("];", a)
    out = []
    for m in re.finditer(r'e\("([^"]+)",\s*"((?:[^"\\]|\\.)*)",\s*([^,]+(?:\([^)]*\))?(?:\.union\([^)]*\))?),\s*(Err_|Warn),\s*(Parse|Analysis),\s*(true|false)\)', src[a:b]):
        name, tpl, needs, sev, stage, block = m.groups()
        tpl = tpl.replace("\\n", "⏎").replace("\\u{a0}", "<NBSP>").replace("\\u{3000}", "<U+3000>").replace('\\"', '"').replace("|", "\\|")
        needs = needs.replace("E::", "").replace(".union(", " + ").replace(")", "").replace("NONE", "–")
        out.append(f"| {name} | `{tpl}` | {needs} | {'error' if sev == 'Err_' else 'warning'} | {stage.lower()} | {'own block(s)' if block == 'true' else 'inline or block'} |")
    return out


def main():
    r = rows()
    table = "| entry | template (`«…»` = the part the first label has to touch) | needs | severity | stage | placement |\n|---|---|---|---|---|---|\n" + "\n".join(r) + "\n"
    if "--design" in sys.argv:
        p = os.path.join(ROOT, "DESIGN.md")
        s = open(p).read()
        a = s.index("<!-- CATALOGUE-TABLE-BEGIN")
        a = s.index("-->", a) + 3
        b = s.index("<!-- CATALOGUE-TABLE-END -->")
        s = s[:a] + "\n" + table + s[b:]
        open(p, "w").write(s)
        print(f"DESIGN.md catalogue table updated ({len(r)} entries)")
    else:
        print(table)
    return 0


if __name__ == "__main__":
    sys.exit(main())
