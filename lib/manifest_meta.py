HOOK_COMMITS = ["0b50982"]

NOT_APPLICABLE = {}

META = {
    "C03": {
        "text": "Crash/overflow/hang monitor: every public entry point and consumer is executed under catch_unwind on targeted, exhaustive-short and random inputs in a debug-assertions+overflow-checks build and a release build; anchored loops run under a logical step budget. Held = no panic, abort, fuel exhaustion or unbounded event stream on the executions listed in the evidence. Exploration is the right level: the property quantifies over all strings, a finite run can only sample beyond the exhaustive short strings.",
        "design_ref": "DESIGN.md §6 C03",
        "note": "trusts: catch_unwind + backtrace attribution; fuel hook placement (MANIFEST.hooks); watchdog firing is inconclusive, not a verdict",
        "technique": "runtime monitoring: guarded execution + step-budget hook + wall-clock watchdog, two build profiles",
    },
    "C04": {
        "text": "Invariant monitor over every span the parser reports (events, AST, diagnostic labels) plus the token-tiling hook and report rendering, on a multi-byte-at-every-token-boundary sweep, exhaustive short strings and random inputs.",
        "design_ref": "DESIGN.md §6 C04",
        "note": "trusts the visitor to enumerate all span-carrying fields of the public event/AST types",
        "technique": "runtime monitoring: invariant checks on hooked token stream and returned spans",
    },
    "C05": {
        "text": "Conservation monitor: an independent comment scanner lists the alphanumeric bytes outside comments; each must be covered by an emitted event span whenever the stream has no error event.",
        "design_ref": "DESIGN.md §6 C05",
        "note": "trusts the 40-line comment scanner (documented comment syntax) and the reading that front matter exists only at the very top",
        "technique": "runtime monitoring: coverage/conservation oracle over recorded event spans",
    },
    "C06": {
        "text": "Structural invariant walk over every returned recipe (valid or not) for reference-rich generated inputs, exhaustive fragment sequences and random strings, in both build profiles.",
        "design_ref": "DESIGN.md §6 C06",
        "note": "trusts the invariant walker; owner step/section of a component is recovered from step items",
        "technique": "runtime monitoring: structural invariants at the API boundary",
    },
    "C14": {
        "text": "Differential monitor: parse_metadata vs parse().metadata on the same (input, extensions, converter) for exhaustive short and random metadata-rich inputs under many extension subsets.",
        "design_ref": "DESIGN.md §6 C14",
        "note": "equality is serde_yaml::Mapping equality (keys, values, order)",
        "technique": "runtime monitoring: differential oracle between two entry points",
    },
    "C01": {
        "text": "Reference-model monitor: generated recipe specs are spelled many ways (25 independent spelling feature classes, up to maximally hostile) and the parse of every spelling is compared, as a whole serde_json image plus metadata order, with the recipe computed from the spec by a rule-based reference semantics written from the documentation. Canonical and extended parser. Exploration: the space of specs x spellings is infinite; coverage of constructs and spelling classes is measured and required.",
        "design_ref": "DESIGN.md §6 C01, §4 G1, Appendix A",
        "note": "trusts the reference semantics (my reading of the grammar comment, extensions.md and rustdoc) and the speller's exclusion list",
        "technique": "runtime monitoring: reference-model oracle over generated spellings",
    },
    "C02": {
        "text": "Differential monitor, exhaustive in the configuration dimension: every generated core-syntax spelling is parsed under all 192 extension subsets (one image, no error, equal to the model); a converse table checks the documented core reading of each extension's syntax under every subset lacking it.",
        "design_ref": "DESIGN.md §6 C02",
        "note": "core-only-ness of inputs is guaranteed by generator restriction (the property's own exclusion list), not decided by the parser",
        "technique": "runtime monitoring: differential oracle across all extension subsets",
    },
    "C09": {
        "text": "Reference-table monitor, exhaustive over the finite unit dimension (all ordered pairs by every key, all same-quantity triples) and sampled over values; to-system, fit and whole-recipe conversion checked for amount preservation, designated unit lists and error behaviour.",
        "design_ref": "DESIGN.md §6 C09",
        "note": "trusts the independent table of standard unit definitions in harness/src/units.rs",
        "technique": "runtime monitoring: reference-table oracle over all unit pairs/triples",
    },
    "C11": {
        "text": "Exhaustive short inputs over the format's alphabet plus random files, judged by invariants, a write/parse round trip, lookups and an independent reference parser; the unsafe span arithmetic runs under Miri on a stratified sample.",
        "design_ref": "DESIGN.md §6 C11",
        "note": "Miri covers only the inputs it is given (interpreter, ~100 inputs per run)",
        "technique": "runtime monitoring: invariants + reference parser + Miri (undefined-behaviour interpreter)",
    },
    "C12": {
        "text": "Direct oracle on Number::new_approx over a dense value set times all parameter combinations (all max_den 0..=64 in thorough), plus the public callers with the configured per-unit limits.",
        "design_ref": "DESIGN.md §6 C12",
        "note": "supported denominators taken from the rustdoc list {2,3,4,5,8,10,16,32,64}",
        "technique": "runtime monitoring: direct arithmetic oracle on returned values",
    },
    "C13": {
        "text": "Reference-arithmetic monitor over a catalogue of documented and out-of-form values for the standard metadata keys, through both metadata syntaxes and four converters, in both build profiles (overflow panics vs silent wraps).",
        "design_ref": "DESIGN.md §6 C13",
        "note": "trusts the catalogue's reading of the documented forms (rustdoc of CooklangValueExt and NameAndUrl::parse, extensions.md table)",
        "technique": "runtime monitoring: reference-arithmetic oracle + accessor/diagnostic agreement",
    },
    "C16": {
        "text": "Generated layer sequences are built under catch_unwind; returned converters are walked for index consistency, compared with an independent model of the layering rules, and then used (all conversions, fit, to-system). Inconsistent layers must be rejected, valid ones accepted; the shipped files are checked the same way and against Converter::default().",
        "design_ref": "DESIGN.md §6 C16",
        "note": "fraction-table precedence is only exercised (no panic), its values are not observable through the public API",
        "technique": "runtime monitoring: consistency walk + independent layering model + guarded use",
    },
    "C10": {
        "text": "Conservation monitor (in = out) over generated quantity multisets in many insertion/merge orders, over grouped ingredients and cookware of generated recipes, over shopping lists of recipe sequences, and over aisle categorisation with synonym-collision shapes.",
        "design_ref": "DESIGN.md §6 C10",
        "note": "totals are computed with the converter's own unit definitions (their correctness is C09's business)",
        "technique": "runtime monitoring: conservation oracle over recorded inputs and outputs",
    },
    "C08": {
        "text": "Reference-model monitor on physical amounts: each generated valid recipe is scaled by several factors and serving targets; every component is judged against its pre-scale kind, everything else must be image-identical.",
        "design_ref": "DESIGN.md §6 C08",
        "note": "physical amounts use the converter's own unit definitions (C09 checks those against the standard table)",
        "technique": "runtime monitoring: reference-model oracle on scaled amounts + differential image of untouched parts",
    },
    "C15": {
        "text": "Round-trip monitor over generated, mutated and front-matter-heavy recipes, before and after scaling and conversion: serialize, deserialize, compare, re-serialize byte-identically.",
        "design_ref": "DESIGN.md §6 C15",
        "note": "ScaledRecipe's Scaled payload has no PartialEq: compared through byte identity of the second serialization",
        "technique": "runtime monitoring: round-trip oracle",
    },
    "C18": {
        "text": "History monitor: every call is recorded as (process, thread, input, config, image hash) and the offline check requires one hash per (input, config) across call positions, reused vs fresh parsers, 16-thread sharing, hundreds of separate processes and both build profiles; Miri (seeded schedules) and, in thorough, ThreadSanitizer watch the same threaded workload for data races.",
        "design_ref": "DESIGN.md §6 C18",
        "note": "schedules are sampled; the parser takes no locks, the only shared write is the one-time fraction-table initialisation, which every thread's first operation races",
        "technique": "runtime monitoring: recorded-history equality checker + Miri/TSan race detection",
    },
    "C19": {
        "text": "Mirror relation between the bindings' simplified recipe and the core recipe on generated canonical inputs, and an independent fold as the oracle for combine_ingredients / combine_ingredients_selected over all small permutations and random selections.",
        "design_ref": "DESIGN.md §6 C19",
        "note": "bindings source is included with #[path] so that the working tree's code runs and private fields are readable",
        "technique": "runtime monitoring: mirror oracle against the core API + reference fold",
    },
    "C17": {
        "text": "Metamorphic monitor: four families of meaning-preserving edits (CRLF, trailing comment/spaces, block comment in a gap, extra blank/comment lines), applied exhaustively at every eligible insertion point of generated well-formed recipes and (CRLF) to fuzz inputs; the two parses must agree up to white space in step text.",
        "design_ref": "DESIGN.md §6 C17",
        "note": "independent of the reference semantics of C01: only pairs of parser outputs are compared",
        "technique": "runtime monitoring: metamorphic oracle over pairs of executions",
    },
    "C07": {
        "text": "Catalogue monitor for diagnostics: soundness on generated well-formed recipes, completeness and label placement for 59 injected invalid constructs at random placements under the extension sets that enable each check, and the validity/output/stage relation on every parse including fuzz inputs.",
        "design_ref": "DESIGN.md §6 C07, Appendix B",
        "note": "matched by severity, stage and first-label placement only, never by message text",
        "technique": "runtime monitoring: fault-injection catalogue + soundness oracle over generated inputs",
    },
}
