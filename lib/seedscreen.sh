#!/bin/bash
# Screening of a seeded change WITHOUT touching /repo (several can run in parallel):
#   lib/seedscreen.sh <slot> <patch.diff> <ID[,ID...]|all> [quick|thorough]
# makes a scratch worktree of /repo with the patch applied and a scratch copy of /verif whose
# harness crates point at that worktree, runs the checks there and prints their verdict lines.
# The registered way to run a check against a change remains lib/seedrun.py (git -C /repo apply ...).
# Everything lives under /tmp/sw/<slot> and is removed at the end (KEEP=1 keeps it).
set -u
slot=$1; patch=$(readlink -f "$2"); ids=$3; tier=${4:-quick}
base=/tmp/sw/$slot
rm -rf "$base/verif"; mkdir -p "$base"
if [ -d "$base/repo" ]; then git -C /repo worktree remove --force "$base/repo" >/dev/null 2>&1; rm -rf "$base/repo"; fi
git -C /repo worktree add --detach "$base/repo" HEAD >/dev/null 2>&1 || { echo "worktree failed"; exit 3; }
if [ "$patch" != "/dev/null" ]; then
  git -C "$base/repo" apply "$patch" || { echo "patch does not apply"; git -C /repo worktree remove --force "$base/repo"; exit 3; }
fi
mkdir -p "$base/verif"
rsync -a --exclude .git --exclude replays --exclude .build --exclude logs --exclude seeded "${SRC_VERIF:-/verif}/" "$base/verif/"
# point every /repo reference of the harness at the scratch worktree (cargo then rebuilds cooklang + vmon only)
grep -rlZ '/repo' "$base/verif/harness/src" "$base/verif/harness/Cargo.toml" "$base/verif/harness_bindings/src" \
     "$base/verif/harness_bindings/Cargo.toml" "$base/verif/check" "$base/verif/lib/overlays.py" 2>/dev/null \
  | xargs -0 sed -i "s#${SRC_REPO:-/repo}#$base/repo#g"
cd "$base/verif"
if [ "$ids" = all ]; then ids=$(python3 -c "import sys; sys.path.insert(0,'lib'); from props import PROPS; print(','.join(sorted(PROPS)))"); fi
for id in ${ids//,/ }; do
  out=$(./check "$id" "$tier" 2>&1); rc=$?
  echo "$id $tier rc=$rc $(echo "$out" | grep -E '^(RESULT|INCONCLUSIVE)' | tail -1)"
  echo "$out" | grep -E '^   [a-zA-Z_]' | grep -v '^   input=' | head -6 | cut -c1-300
done
cd /
if [ "${KEEP:-0}" != 1 ]; then
  git -C /repo worktree remove --force "$base/repo" >/dev/null 2>&1
  rm -rf "$base"
fi
