#!/usr/bin/env python3
"""Writes MANIFEST.json from lib/props.py + lib/manifest_meta.py (kept in one place so it stays valid)."""
import json, os, sys
ROOT = os.path.dirname(os.path.dirname(os.path.abspath(__file__)))
sys.path.insert(0, os.path.join(ROOT, "lib"))
from props import PROPS
from manifest_meta import META, NOT_APPLICABLE, HOOK_COMMITS

ids = [json.loads(l)["id"] for l in open(os.path.join(ROOT, "properties.jsonl"))]
checks = []
for pid in ids:
    if pid not in PROPS or pid not in META:
        continue
    m = META[pid]
    checks.append({
        "property_id": pid,
        "quick_cmd": f"./check {pid} quick",
        "thorough_cmd": f"./check {pid} thorough",
        "evidence_file": f"/verif/evidence/{pid}.json",
        "replay_cmd_template": "./check replay {path}",
        "engine": "vmon",
        "level_claimed": {"category": PROPS[pid].get("level", "exploration"), "text": m["text"], "design_ref": m["design_ref"]},
        "level_note": m["note"],
        "technique": m["technique"],
    })
na = [{"property_id": pid, "reason": NOT_APPLICABLE.get(pid, "monitor not built yet (work in progress in this session); nothing is claimed for it")}
      for pid in ids if pid not in {c["property_id"] for c in checks}]
manifest = {
    "version": 1,
    "setup_cmd": "./check setup",
    "hooks": {
        "guard": "cargo feature `verif` of crate cooklang (off by default)",
        "enable": "the harness crates depend on cooklang = { path = \"/repo\", features = [\"verif\"] } and are rebuilt by every check",
        "baseline_off_cmd": "cd /repo && cargo nextest run --workspace --no-fail-fast --offline || cargo test --workspace --no-fail-fast --offline",
        "source_commits": HOOK_COMMITS,
        "add_only": True,
    },
    "engines": [
        {"name": "vmon", "path": "/verif/harness", "serves_properties": [c["property_id"] for c in checks],
         "kind_free_text": "Rust monitor binary (generators + oracles + recorder) run as sharded child processes by the python driver /verif/check; overlays: Miri (C03, C11, C18), ThreadSanitizer (C18, thorough), many short processes for cross-process comparison (C18). The C19 monitors live in /verif/harness_bindings (binary vmon_bindings, compiles /repo/bindings/src/lib.rs as a module)"},
    ],
    "checks": checks,
    "not_applicable": na,
    "notes": "All checks are runtime monitors over generated executions of the real code (family: runtime monitoring and sanitizers). Exit 0 = held on what was observed, 1 = VIOLATION line(s), 2 = inconclusive (never folded into the others). Known findings: /verif/known_findings.json.",
}
json.dump(manifest, open(os.path.join(ROOT, "MANIFEST.json"), "w"), indent=1)
print(f"MANIFEST.json: {len(checks)} checks, {len(na)} not claimed")
