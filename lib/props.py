"""Per-property configuration of the driver (what to build, how many shards, floors, rule text)."""

PROPS = {
    "C03": {
        "profiles": ["chk", "rel"],
        "shards": {"quick": 8, "thorough": 16},
        "floor": {"quick": 20000, "thorough": 1000000},
        "must_observe": ["inputs_targeted", "inputs_exhaustive", "inputs_random", "reports_rendered", "metadata_nonempty", "parse_valid"],
        "rule": "cases = (input, extension set, converter); inputs: targeted families per anchored mechanism (escapes, HhMm near 2^32, 5000-digit numbers, deep nests, 50k-token lines, hostile YAML), all strings of <= N symbols over a 45-symbol token alphabet, random/structured/mutated strings over a 61-symbol alphabet; per case ~25 guarded operations (events, meta events, build_ast, parse_metadata, parse, report rendering x2 colours, accessors, default_scale/scale/scale_to_servings, convert x2, grouping, ingredient list + categorize, Display, serde_json). Non-trivial = the event stream had >= 2 events; distinct by 64-bit hash of (input, config).",
        "assumptions": ["hang verdict = logical step budget 64*(bytes+16) on the hooked loops plus a per-shard wall-clock watchdog whose firing is inconclusive", "panic attribution by backtrace: frames under /repo/ are the code under test"],
    },
    "C04": {
        "profiles": ["chk", "rel"],
        "floor": {"quick": 50000, "thorough": 2000000},
        "must_observe": ["inputs_multibyte_sweep", "inputs_exhaustive", "inputs_random", "tokens_checked", "spans_checked", "fragments_checked", "diagnostics_checked", "reports_rendered"],
        "rule": "cases = (input, extension set, converter); inputs: every seed (10 rich recipes, 50 diagnostic-producing constructs, the canonical spec sources, short C03 targets) with each of 4 multi-byte chars inserted at every token boundary in turn; all strings of <= N symbols of a 45-symbol alphabet; random/structured/mutated strings. Oracle: token tiling (hook), span bounds/char boundaries/start<=end for every Text fragment and Located span of every event, AST node and diagnostic label, fragment text == input slice, content events ordered and disjoint (error-free streams), report renders in both colour modes. Non-trivial = at least one content event; distinct by hash of (input, config).",
        "assumptions": ["event-order clause judged only on streams without a parser Error event (the API says other events are not to be trusted then)"],
    },
    "C05": {
        "profiles": ["chk", "rel"],
        "floor": {"quick": 100000, "thorough": 5000000},
        "must_observe": ["inputs_fence_family", "inputs_exhaustive", "inputs_random", "streams_judged", "content_chars_checked"],
        "rule": "cases = (input, extension set); inputs: `---` fence family (7 fence spellings x 1-3 fences x all positions among 5 lines), all strings of <= N symbols over a 34-symbol alphanumeric-rich alphabet, random/mutated strings. Oracle: independent comment scanner gives alphanumeric positions outside comments (front matter only at the very top); each must lie in the span of an emitted event. Only error-free event streams are judged. Non-trivial = at least one content char; distinct by hash.",
        "assumptions": ["front matter is only recognised at the very top of the document (documented: 'A YAML frontmatter at the top of the document')"],
    },
    "C06": {
        "profiles": ["chk", "rel"],
        "floor": {"quick": 100000, "thorough": 5000000},
        "must_observe": ["inputs_fragment_sequences", "inputs_fragment_random", "inputs_exhaustive", "outputs_valid", "outputs_invalid", "refs_ingredient", "refs_cookware", "refs_step", "refs_section", "steps_checked"],
        "rule": "cases = (input, extension set, converter); inputs: all sequences of <= N of 39 reference-rich fragments x 3 separators, random sequences of 4-14 fragments under random extension subsets, all strings <= M symbols of the 45-symbol alphabet, random strings. Oracle: invariant walk over the returned ScalableRecipe (valid or not). Non-trivial = the recipe has at least one component; distinct by hash.",
        "assumptions": ["'text item' read as Item::Text; empty Content::Text paragraphs are counted as an observation only"],
    },
    "C14": {
        "profiles": ["chk"],
        "floor": {"quick": 100000, "thorough": 5000000},
        "must_observe": ["both_have_output", "both_output_nonempty_metadata", "inputs_exhaustive", "inputs_random"],
        "rule": "cases = (input, extension set, converter); inputs: all strings of <= N symbols over a 35-symbol metadata-rich alphabet, random/mutated strings, each under >= 6 extension subsets (all 192 in thorough for inputs with a bracketed key) and both converters. Oracle: when both parse and parse_metadata have output their Metadata are equal. Non-trivial = both have output and at least one map is non-empty; distinct by hash.",
        "assumptions": [],
    },
}
