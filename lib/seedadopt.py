#!/usr/bin/env python3
"""Adopt a confirmed candidate as /verif/seeded/<id>/ {patch.diff, demo.rs, meta.json}.

usage: lib/seedadopt.py <candidate dir> <seeded id> [--note "..."]
The candidate dir holds patch.diff, demo.rs, meta.json (written by the sub-agent) and verify.txt
(written by lib/seedverify.sh = my own confirmation). Detection results are added later by
lib/seeddetect.py, which runs the registered checks against the change applied to /repo.
"""
import json
import os
import shutil
import sys

ROOT = os.path.dirname(os.path.dirname(os.path.abspath(__file__)))


def main():
    cand, sid = sys.argv[1], sys.argv[2]
    note = sys.argv[sys.argv.index("--note") + 1] if "--note" in sys.argv else None
    dst = os.path.join(ROOT, "seeded", sid)
    os.makedirs(dst, exist_ok=True)
    shutil.copy(os.path.join(cand, "patch.diff"), os.path.join(dst, "patch.diff"))
    shutil.copy(os.path.join(cand, "demo.rs"), os.path.join(dst, "demo.rs"))
    m = json.load(open(os.path.join(cand, "meta.json")))
    ver = open(os.path.join(cand, "verify.txt")).read().strip() if os.path.exists(os.path.join(cand, "verify.txt")) else ""
    ok = "apply=ok" in ver and "suite=pass" in ver and "demo_with=fail" in ver and "demo_without=pass" in ver
    if not ok:
        print(f"NOT ADOPTED {sid}: my own confirmation did not succeed: {ver}")
        shutil.rmtree(dst)
        return 1
    old = {}
    if os.path.exists(os.path.join(dst, "meta.json")):
        old = json.load(open(os.path.join(dst, "meta.json")))
    meta = {
        "id": sid,
        "property": m.get("property", sid.split("-")[0]),
        "summary": m.get("summary"),
        "files_touched": m.get("files_touched"),
        "needs_to_manifest": m.get("needs_to_manifest"),
        "example_input": m.get("example_input"),
        "demo_location": m.get("demo_location", "tests/seeded_demo.rs"),
        "demo_cmd": m.get("demo_cmd", "cargo test --offline --test seeded_demo"),
        "origin": "written by a fresh sub-agent that was given only the text of the property and its own scratch worktree of /repo (nothing from /verif)",
        "confirmed_by_me": {
            "how": "lib/seedverify.sh in a scratch worktree: git apply on clean HEAD; cargo nextest run --workspace (the 181-test baseline) with the change; demo copied to demo_location and run with and without the change",
            "result": ver.split(" ", 2)[-1] if ver else "",
        },
        "detection": old.get("detection", {}),
    }
    if note:
        meta["note"] = note
    json.dump(meta, open(os.path.join(dst, "meta.json"), "w"), indent=1, ensure_ascii=False)
    print(f"adopted {sid}")
    return 0


if __name__ == "__main__":
    sys.exit(main())
