#!/usr/bin/env python3
"""Fill the numbers column of the as-built table in DESIGN.md §10 from evidence/<id>.json (last run of each check)."""
import json, os, re
ROOT = os.path.dirname(os.path.dirname(os.path.abspath(__file__)))
p = os.path.join(ROOT, "DESIGN.md")
s = open(p).read()
for k in [f"C{i:02d}" for i in range(1, 20)]:
    try:
        e = json.load(open(os.path.join(ROOT, "evidence", f"{k}.json")))
    except OSError:
        continue
    cov = e.get("coverage", {})
    ev = cov.get("evaluations") or cov.get("observed_evaluations") or 0
    wall = e.get("wall_s") or 0
    tier = e.get("tier") or "?"
    cell = f"{ev:,} / {wall:.0f} s ({tier})".replace(",", " ")
    s = re.sub(rf"\| (<!--N:{k}-->)[^|]*\|", lambda m: f"| {m.group(1)} {cell} |", s)
open(p, "w").write(s)
print("as-built numbers updated")
