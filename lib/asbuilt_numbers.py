#!/usr/bin/env python3
"""Fill the numbers column of the as-built table in DESIGN.md section 10 from lib/timings.json
(recorded from the final runs against /repo: quick at VERIF_SEED=0 and thorough; wall time without the build)."""
import json, os, re
ROOT = os.path.dirname(os.path.dirname(os.path.abspath(__file__)))
t = json.load(open(os.path.join(ROOT, "lib", "timings.json")))
p = os.path.join(ROOT, "DESIGN.md")
s = open(p).read()
def fmt(d):
    return f"{d['evaluations']:,} / {d['wall_s']:.0f} s".replace(",", " ")
for k, v in t.items():
    cell = "quick " + fmt(v["quick"]) + "; thorough " + fmt(v["thorough"])
    s = re.sub(rf"\| (<!--N:{k}-->)[^|]*\|", lambda m: f"| {m.group(1)} {cell} |", s)
open(p, "w").write(s)
print("as-built numbers updated")
