#!/usr/bin/env python3
"""Run registered checks against a seeded change, the way the brief prescribes:

    git -C /repo apply <patch>;  ./check <ID> <tier> ...;  git -C /repo checkout -- .

usage: lib/seedrun.py <seeded dir or patch.diff> <ID[,ID...]|all> [quick|thorough] [--json out]

The evidence files of the unchanged tree are saved before and restored afterwards (a run against a
seeded change must never become the committed evidence). Prints one line per check:
    <ID> <tier> rc=<0|1|2> <first VIOLATION/INCONCLUSIVE/RESULT line>
"""
import json
import os
import shutil
import subprocess
import sys
import tempfile

ROOT = os.path.dirname(os.path.dirname(os.path.abspath(__file__)))
sys.path.insert(0, os.path.join(ROOT, "lib"))
from props import PROPS  # noqa: E402


def sh(*cmd, **kw):
    return subprocess.run(cmd, stdout=subprocess.PIPE, stderr=subprocess.STDOUT, text=True, **kw)


def main():
    args = [a for a in sys.argv[1:] if not a.startswith("--json")]
    jout = None
    if "--json" in sys.argv:
        jout = sys.argv[sys.argv.index("--json") + 1]
        args = [a for a in args if a != jout]
    target, ids = args[0], args[1]
    tier = args[2] if len(args) > 2 else "quick"
    patch = os.path.join(target, "patch.diff") if os.path.isdir(target) else target
    patch = os.path.abspath(patch)
    ids = sorted(PROPS) if ids == "all" else ids.split(",")
    st = sh("git", "-C", "/repo", "status", "--porcelain", "--untracked-files=no").stdout.strip()
    if st:
        print("refusing: /repo has local changes:\n" + st)
        return 3
    save = tempfile.mkdtemp(prefix="evid_save_")
    shutil.copytree(os.path.join(ROOT, "evidence"), os.path.join(save, "evidence"))
    results = []
    r = sh("git", "-C", "/repo", "apply", patch)
    if r.returncode != 0:
        print("patch does not apply:\n" + r.stdout)
        shutil.rmtree(save)
        return 3
    try:
        for pid in ids:
            r = sh(os.path.join(ROOT, "check"), pid, tier, cwd=ROOT)
            lines = r.stdout.splitlines()
            viol = [l for l in lines if l.startswith("VIOLATION")]
            sigs = [l.strip() for l in lines if l.startswith("   ") and ": " in l and not l.strip().startswith("input=")]
            res = [l for l in lines if l.startswith(("RESULT", "INCONCLUSIVE"))]
            results.append({"property": pid, "tier": tier, "rc": r.returncode, "violations": len(viol),
                            "signatures": sigs[:12], "result": res[-1] if res else (lines[-1] if lines else "")})
            print(f"{pid} {tier} rc={r.returncode} viol={len(viol)} {res[-1] if res else ''}", flush=True)
            for s in sigs[:6]:
                print("      " + s[:260], flush=True)
    finally:
        sh("git", "-C", "/repo", "checkout", "--", ".")
        shutil.rmtree(os.path.join(ROOT, "evidence"))
        shutil.copytree(os.path.join(save, "evidence"), os.path.join(ROOT, "evidence"))
        shutil.rmtree(save)
    if jout:
        json.dump(results, open(jout, "w"), indent=1)
    return 0


if __name__ == "__main__":
    sys.exit(main())
