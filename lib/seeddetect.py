#!/usr/bin/env python3
"""Run the registered check(s) against seeded changes applied to /repo itself and record the outcome
in seeded/<id>/meta.json ("detection").

usage: lib/seeddetect.py [quick|thorough] [--props own|all|C01,C05] [--only-missing] <seeded id> ...
       lib/seeddetect.py quick --all            (every directory under seeded/)
For each change: git -C /repo apply seeded/<id>/patch.diff; ./check <ID> <tier>; git -C /repo checkout -- .
(through lib/seedrun.py, which also saves and restores the evidence files of the unchanged tree).
"""
import json
import os
import subprocess
import sys
import tempfile
import time

ROOT = os.path.dirname(os.path.dirname(os.path.abspath(__file__)))


def main():
    args = sys.argv[1:]
    tier = "quick"
    if args and args[0] in ("quick", "thorough"):
        tier = args.pop(0)
    props = "own"
    if "--props" in args:
        i = args.index("--props")
        props = args[i + 1]
        del args[i:i + 2]
    only_missing = "--only-missing" in args
    args = [a for a in args if a != "--only-missing"]
    if "--all" in args:
        ids = sorted(os.listdir(os.path.join(ROOT, "seeded")))
    else:
        ids = args
    for sid in ids:
        d = os.path.join(ROOT, "seeded", sid)
        mp = os.path.join(d, "meta.json")
        if not os.path.exists(mp):
            continue
        meta = json.load(open(mp))
        det = meta.setdefault("detection", {})
        if only_missing and det.get(tier):
            continue
        which = meta["property"] if props == "own" else props
        out = tempfile.mktemp(suffix=".json")
        t = time.time()
        r = subprocess.run([os.path.join(ROOT, "lib", "seedrun.py"), d, which, tier, "--json", out], stdout=subprocess.PIPE, stderr=subprocess.STDOUT, text=True)
        if not os.path.exists(out):
            print(f"{sid}: seedrun failed: {r.stdout[-400:]}")
            continue
        res = json.load(open(out))
        os.remove(out)
        entry = det.setdefault(tier, {"how": f"git -C /repo apply seeded/{sid}/patch.diff; ./check <ID> {tier}; git -C /repo checkout -- .  (lib/seedrun.py)", "checks": {}})
        for x in res:
            entry["checks"][x["property"]] = {"exit": x["rc"], "violations": x["violations"], "signatures": x["signatures"][:6], "result": x["result"]}
        caught = sorted(p for p, x in entry["checks"].items() if x["exit"] == 1)
        entry["caught_by"] = caught
        json.dump(meta, open(mp, "w"), indent=1, ensure_ascii=False)
        print(f"{sid} {tier}: caught_by={caught} ({time.time()-t:.0f}s)", flush=True)
    return 0


if __name__ == "__main__":
    sys.exit(main())
