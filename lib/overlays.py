"""Property-specific overlays: sanitizers, Miri, multi-process history checks.
Each overlay returns (extra_coverage: dict, extra_violations: list, inconclusive_reasons: list)."""
import json
import os
import subprocess
import time

ROOT = os.path.dirname(os.path.dirname(os.path.abspath(__file__)))
HARNESS = os.path.join(ROOT, "harness")
ENV = dict(os.environ, CARGO_NET_OFFLINE="true")


def _miri_env(extra=None):
    env = dict(ENV)
    env["MIRIFLAGS"] = "-Zmiri-disable-isolation"
    env["CARGO_TARGET_DIR"] = os.path.join(HARNESS, "target", "miri")
    if extra:
        env.update(extra)
    return env


def miri_run(prop, tier, seed, workdir, shards, timeout, extra_env=None, miriflags=None):
    """Run `vmon run <prop>` under Miri in `shards` processes. Returns list of (status, data, tail)."""
    procs = []
    for i in range(shards):
        out = os.path.join(workdir, f"miri.{i}.json")
        for p in (out, out + ".hashes"):
            if os.path.exists(p):
                os.remove(p)
        env = _miri_env(extra_env)
        env["VERIF_MIRI"] = "1"
        if miriflags:
            env["MIRIFLAGS"] += " " + miriflags
        cmd = ["cargo", "+nightly", "miri", "run", "--offline", "--quiet", "--", "run", prop, "--tier", "quick", "--seed", str(seed),
               "--shard", f"{i}/{shards}", "--profile", "miri", "--out", out]
        errp = os.path.join(workdir, f"miri.{i}.stderr")
        procs.append((i, out, errp, subprocess.Popen(cmd, cwd=HARNESS, env=env, stdout=open(errp, "w"), stderr=subprocess.STDOUT)))
    res = []
    deadline = time.time() + timeout
    for i, out, errp, p in procs:
        try:
            rc = p.wait(timeout=max(1, deadline - time.time()))
            status = "ok" if rc == 0 else f"rc={rc}"
        except subprocess.TimeoutExpired:
            p.kill()
            p.wait()
            status = "timeout"
        tail = ""
        try:
            tail = open(errp).read()[-3000:]
        except OSError:
            pass
        data = None
        if status == "ok":
            try:
                data = json.load(open(out))
            except Exception as e:  # noqa: BLE001
                status = f"bad output {e}"
        res.append((status, data, tail))
    return res


def _fold_miri(prop, res, label):
    cov = {f"{label}_processes": len(res), f"{label}_evaluations": 0, f"{label}_reports": 0}
    viol, reasons = [], []
    for status, data, tail in res:
        if data is not None:
            cov[f"{label}_evaluations"] += data["evaluations"]
            for v in data["violations"]:
                v = dict(v)
                v["profiles"] = {"miri"}
                v["signature"] = v["signature"]
                viol.append(v)
        if status == "timeout":
            reasons.append(f"{label}: a Miri process hit its watchdog")
        elif status != "ok":
            if "Undefined Behavior" in tail or "error: Undefined" in tail or "data race" in tail.lower():
                cov[f"{label}_reports"] += 1
                first = next((l for l in tail.splitlines() if "Undefined Behavior" in l or "Data race" in l or "data race" in l), tail[-200:])
                viol.append({"sub": "miri", "cause": "undefined_behaviour", "signature": "miri|" + first.strip()[:120],
                             "message": tail[-1500:], "case": {"kind": "miri", "input": "", "ext": 0, "conv": "n/a", "params": None},
                             "profiles": {"miri"}, "count": 1})
            else:
                reasons.append(f"{label}: Miri process failed ({status}): {tail[-300:]}")
    return cov, viol, reasons


def c11_miri(prop, tier, seed, workdir, cfg):
    shards = 2 if tier == "quick" else 16
    res = miri_run("C11", tier, seed, workdir, shards, 900 if tier == "quick" else 3600,
                   extra_env={"VERIF_SCALE": "1" if tier == "quick" else "6"})
    return _fold_miri(prop, res, "miri")


def c03_miri(prop, tier, seed, workdir, cfg):
    """C03: the YAML front matter / escape / consumer slice under Miri (unsafe code of dependencies)."""
    shards = 2 if tier == "quick" else 16
    res = miri_run("C03", tier, seed, workdir, shards, 900 if tier == "quick" else 5400,
                   extra_env={"VERIF_SCALE": "1" if tier == "quick" else "8"})
    return _fold_miri(prop, res, "miri")


def setup():
    """Warm the Miri build of the harness so that quick checks do not pay for it."""
    env = _miri_env()
    r = subprocess.run(["cargo", "+nightly", "miri", "run", "--offline", "--quiet", "--", "merge-hashes"], cwd=HARNESS, env=env,
                       stdout=subprocess.PIPE, stderr=subprocess.STDOUT, text=True)
    if r.returncode != 0:
        print("[setup] miri warm-up failed:\n" + r.stdout[-2000:])
        return False
    return True


# ------------------------------------------------------------------ C18

def _collect_images(paths):
    """paths: shard result files. Returns {group: {hash: [process labels]}} and number of processes read."""
    groups, n = {}, 0
    for p in paths:
        try:
            d = json.load(open(p))
        except Exception:  # noqa: BLE001
            continue
        n += 1
        for k, h in (d.get("notes", {}).get("images") or {}).items():
            groups.setdefault(k, {}).setdefault(h, []).append(os.path.basename(p))
    return groups, n


def _run_pool(cmds, envs, concurrency, timeout):
    """Run commands with bounded concurrency. Returns list of return codes (None = timeout)."""
    rcs = [None] * len(cmds)
    running = []
    i = 0
    deadline = time.time() + timeout
    while i < len(cmds) or running:
        while i < len(cmds) and len(running) < concurrency:
            p = subprocess.Popen(cmds[i], env=envs[i], stdout=subprocess.DEVNULL, stderr=subprocess.PIPE)
            running.append((i, p))
            i += 1
        still = []
        for j, p in running:
            rc = p.poll()
            if rc is None:
                if time.time() > deadline:
                    p.kill()
                    p.wait()
                else:
                    still.append((j, p))
            else:
                rcs[j] = (rc, (p.stderr.read() or b"")[-1500:].decode("utf8", "replace"))
        running = still
        if running:
            time.sleep(0.005)
    return rcs


def c18_cross(prop, tier, seed, workdir, cfg):
    cov, viol, reasons = {}, [], []
    binary = os.path.join(HARNESS, "target", "chk", "vmon")
    # many short processes: the fraction table is initialised once per process, HashMap seeds differ per process
    n = 200 if tier == "quick" else 5000
    sdir = os.path.join(workdir, "short")
    os.makedirs(sdir, exist_ok=True)
    cmds, envs = [], []
    for i in range(n):
        out = os.path.join(sdir, f"p{i}.json")
        cmds.append([binary, "run", "C18", "--tier", "quick", "--seed", str(seed + i), "--shard", f"{i % 16}/16", "--profile", "chk", "--out", out])
        envs.append(dict(ENV, VERIF_C18_MODE="short"))
    rcs = _run_pool(cmds, envs, 16, 600 if tier == "quick" else 3600)
    died = [r for r in rcs if r is None or r[0] != 0]
    if died:
        reasons.append(f"{len(died)} of {n} short C18 processes did not finish cleanly: {died[0]}")
    paths = [os.path.join(sdir, f"p{i}.json") for i in range(n)]
    paths += [os.path.join(workdir, f) for f in os.listdir(workdir) if f.endswith(".json") and (f.startswith("chk.") or f.startswith("rel."))]
    groups, nproc = _collect_images(paths)
    differing = {k: v for k, v in groups.items() if len(v) > 1}
    threads_seen = set()
    for p in paths[:n]:
        try:
            d = json.load(open(p))
            for k in d["counters"]:
                if k.startswith("first_thread_at_table:"):
                    threads_seen.add(k)
        except Exception:  # noqa: BLE001
            pass
        for ext in ("", ".hashes"):
            try:
                os.remove(p + ext)
            except OSError:
                pass
    cov.update({"processes_compared": nproc, "short_processes": n, "groups_compared_across_processes": len(groups),
                "groups_with_more_than_one_image": len(differing), "distinct_first_arriving_threads": len(threads_seen)})
    for k, v in sorted(differing.items())[:5]:
        viol.append({"sub": "cross_process", "cause": "different_results_in_different_processes",
                     "signature": "cross_process|different_results_in_different_processes",
                     "message": f"group {k} (input id/config id of the fixed pool) has images {dict((h, len(ps)) for h, ps in v.items())} across processes",
                     "case": {"kind": "cross_process", "input": k, "ext": 0, "conv": "n/a", "params": {"hashes": {h: ps[:3] for h, ps in v.items()}}},
                     "profiles": {"chk"}, "count": len(differing)})
        break
    if nproc < n // 2:
        reasons.append(f"only {nproc} processes produced images")
    # Miri: data races / UB on the shared parser and the lazily initialised table, several schedules
    seeds = 4 if tier == "quick" else 32
    t0 = time.time()
    res = miri_run("C18", tier, seed, workdir, 1, 1200 if tier == "quick" else 5400,
                   extra_env={"VERIF_C18_MODE": "tiny"}, miriflags=f"-Zmiri-many-seeds=0..{seeds}")
    mcov, mviol, mreasons = _fold_miri(prop, res, "miri")
    mcov["miri_schedules"] = seeds
    mcov["miri_wall_s"] = round(time.time() - t0, 1)
    cov.update(mcov)
    viol += mviol
    reasons += mreasons
    if tier == "thorough":
        tcov, tviol, treasons = _tsan(prop, seed, workdir, 500)
        cov.update(tcov)
        viol += tviol
        reasons += treasons
    return cov, viol, reasons


def _tsan(prop, seed, workdir, nproc):
    cov, viol, reasons = {}, [], []
    env = dict(ENV, RUSTFLAGS="-Zsanitizer=thread", CARGO_TARGET_DIR=os.path.join(HARNESS, "target", "tsan"))
    t0 = time.time()
    b = subprocess.run(["cargo", "+nightly", "build", "--offline", "--quiet", "-Zbuild-std", "--target", "x86_64-unknown-linux-gnu", "--profile", "chk"],
                       cwd=HARNESS, env=env, stdout=subprocess.PIPE, stderr=subprocess.STDOUT, text=True)
    if b.returncode != 0:
        return cov, viol, [f"TSan build failed: {b.stdout[-400:]}"]
    binary = os.path.join(HARNESS, "target", "tsan", "x86_64-unknown-linux-gnu", "chk", "vmon")
    tdir = os.path.join(workdir, "tsan")
    os.makedirs(tdir, exist_ok=True)
    cmds, envs = [], []
    for i in range(nproc):
        cmds.append([binary, "run", "C18", "--tier", "quick", "--seed", str(seed + i), "--shard", f"{i % 16}/16", "--profile", "tsan", "--out", os.path.join(tdir, f"t{i}.json")])
        envs.append(dict(ENV, VERIF_C18_MODE="short", TSAN_OPTIONS="halt_on_error=1 exitcode=66 second_deadlock_stack=1"))
    rcs = _run_pool(cmds, envs, 16, 3600)
    reports = [r for r in rcs if r is not None and r[0] == 66]
    other = [r for r in rcs if r is None or r[0] not in (0, 66)]
    cov.update({"tsan_processes": nproc, "tsan_reports": len(reports), "tsan_build_and_run_s": round(time.time() - t0, 1)})
    if reports:
        tail = reports[0][1]
        first = next((l for l in tail.splitlines() if "WARNING: ThreadSanitizer" in l), "ThreadSanitizer report")
        viol.append({"sub": "tsan", "cause": "data_race", "signature": "tsan|" + first.strip()[:100], "message": tail,
                     "case": {"kind": "tsan", "input": "", "ext": 0, "conv": "n/a", "params": None}, "profiles": {"tsan"}, "count": len(reports)})
    if other:
        reasons.append(f"{len(other)} TSan processes failed for another reason: {other[0]}")
    for i in range(nproc):
        for ext in ("", ".hashes"):
            try:
                os.remove(os.path.join(tdir, f"t{i}.json") + ext)
            except OSError:
                pass
    return cov, viol, reasons
