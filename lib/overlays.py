"""Property-specific overlays: sanitizers, Miri, multi-process history checks.
Each overlay returns (extra_coverage: dict, extra_violations: list, inconclusive_reasons: list)."""
import json
import os
import subprocess
import time

ROOT = os.path.dirname(os.path.dirname(os.path.abspath(__file__)))
HARNESS = os.path.join(ROOT, "harness")
ENV = dict(os.environ, CARGO_NET_OFFLINE="true")


def _miri_env(extra=None):
    env = dict(ENV)
    env["MIRIFLAGS"] = "-Zmiri-disable-isolation"
    env["CARGO_TARGET_DIR"] = os.path.join(HARNESS, "target", "miri")
    if extra:
        env.update(extra)
    return env


def miri_run(prop, tier, seed, workdir, shards, timeout, extra_env=None, miriflags=None):
    """Run `vmon run <prop>` under Miri in `shards` processes. Returns list of (status, data, tail)."""
    procs = []
    for i in range(shards):
        out = os.path.join(workdir, f"miri.{i}.json")
        for p in (out, out + ".hashes"):
            if os.path.exists(p):
                os.remove(p)
        env = _miri_env(extra_env)
        env["VERIF_MIRI"] = "1"
        if miriflags:
            env["MIRIFLAGS"] += " " + miriflags
        cmd = ["cargo", "+nightly", "miri", "run", "--offline", "--quiet", "--", "run", prop, "--tier", "quick", "--seed", str(seed),
               "--shard", f"{i}/{shards}", "--profile", "miri", "--out", out]
        errp = os.path.join(workdir, f"miri.{i}.stderr")
        procs.append((i, out, errp, subprocess.Popen(cmd, cwd=HARNESS, env=env, stdout=open(errp, "w"), stderr=subprocess.STDOUT)))
    res = []
    deadline = time.time() + timeout
    for i, out, errp, p in procs:
        try:
            rc = p.wait(timeout=max(1, deadline - time.time()))
            status = "ok" if rc == 0 else f"rc={rc}"
        except subprocess.TimeoutExpired:
            p.kill()
            p.wait()
            status = "timeout"
        tail = ""
        try:
            tail = open(errp).read()[-3000:]
        except OSError:
            pass
        data = None
        if status == "ok":
            try:
                data = json.load(open(out))
            except Exception as e:  # noqa: BLE001
                status = f"bad output {e}"
        res.append((status, data, tail))
    return res


def _fold_miri(prop, res, label):
    cov = {f"{label}_processes": len(res), f"{label}_evaluations": 0, f"{label}_reports": 0}
    viol, reasons = [], []
    for status, data, tail in res:
        if data is not None:
            cov[f"{label}_evaluations"] += data["evaluations"]
            for v in data["violations"]:
                v = dict(v)
                v["profiles"] = {"miri"}
                v["signature"] = v["signature"]
                viol.append(v)
        if status == "timeout":
            reasons.append(f"{label}: a Miri process hit its watchdog")
        elif status != "ok":
            if "Undefined Behavior" in tail or "error: Undefined" in tail or "data race" in tail.lower():
                cov[f"{label}_reports"] += 1
                first = next((l for l in tail.splitlines() if "Undefined Behavior" in l or "Data race" in l or "data race" in l), tail[-200:])
                viol.append({"sub": "miri", "cause": "undefined_behaviour", "signature": "miri|" + first.strip()[:120],
                             "message": tail[-1500:], "case": {"kind": "miri", "input": "", "ext": 0, "conv": "n/a", "params": None},
                             "profiles": {"miri"}, "count": 1})
            else:
                reasons.append(f"{label}: Miri process failed ({status}): {tail[-300:]}")
    return cov, viol, reasons


def c11_miri(prop, tier, seed, workdir, cfg):
    shards = 2 if tier == "quick" else 16
    res = miri_run("C11", tier, seed, workdir, shards, 900 if tier == "quick" else 3600,
                   extra_env={"VERIF_SCALE": "1" if tier == "quick" else "6"})
    return _fold_miri(prop, res, "miri")


def setup():
    """Warm the Miri build of the harness so that quick checks do not pay for it."""
    env = _miri_env()
    r = subprocess.run(["cargo", "+nightly", "miri", "run", "--offline", "--quiet", "--", "merge-hashes"], cwd=HARNESS, env=env,
                       stdout=subprocess.PIPE, stderr=subprocess.STDOUT, text=True)
    if r.returncode != 0:
        print("[setup] miri warm-up failed:\n" + r.stdout[-2000:])
        return False
    return True
