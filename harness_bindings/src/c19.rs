//! C19 — the FFI view mirrors the core recipe and combines amounts faithfully.

use crate::bindings::{self as b, model as bm};
use crate::core::{Case, Ctx, Rng};
use crate::gen::recipe::{self as g, feat, GenOpts};
use cooklang::{Content, CooklangParser, Item as CItem, Value as CValue};
use serde_json::json;
use std::collections::HashMap;

fn amount_matches(a: &Option<bm::Amount>, value: Option<&CValue>, unit: Option<&str>) -> Result<(), String> {
    match (a, value) {
        (None, None) => Ok(()),
        (Some(a), Some(v)) => {
            let ok = match (&a.quantity, v) {
                (bm::Value::Number { value }, CValue::Number(n)) => *value == n.value(),
                (bm::Value::Range { start, end }, CValue::Range { start: s, end: e }) => *start == s.value() && *end == e.value(),
                (bm::Value::Text { value }, CValue::Text(t)) => value == t,
                _ => false,
            };
            if !ok {
                return Err(format!("amount {:?} vs core value {v:?}", a.quantity));
            }
            if a.units.as_deref() != unit {
                return Err(format!("units {:?} vs core unit {unit:?}", a.units));
            }
            Ok(())
        }
        (a, v) => Err(format!("amount {a:?} vs core value {v:?}")),
    }
}

pub fn mirror(ctx: &mut Ctx, case: &Case, factor: f64) {
    ctx.begin(case);
    let parser = CooklangParser::canonical();
    let Ok(r) = crate::core::guarded(|| parser.parse(&case.input)) else { return };
    if !r.is_valid() {
        ctx.count("not_canonically_valid_skipped");
        // the bindings may refuse such an input in their own way (they panic); what they may not do is stop working: the
        // next call with a good recipe has to return its mirror
        let input = case.input.clone();
        let refused = crate::core::guarded(move || b::parse_recipe(input, factor)).is_err();
        let after = crate::core::guarded(|| b::parse_recipe("Boil @water{2%l} in a #pot for ~{10%minutes}.".to_string(), 2.0));
        match after {
            Ok(rec) => {
                let ok = rec.ingredients.len() == 1 && rec.ingredients[0].name == "water" && matches!(&rec.ingredients[0].amount, Some(a) if matches!(a.quantity, bm::Value::Number { value } if value == 4.0) && a.units.as_deref() == Some("l"));
                if !ok {
                    ctx.violation(case, "history", "good_recipe_mirrored_wrongly_after_rejected_input", format!("after this input (refused: {refused}) the recipe 'Boil @water{{2%l}}…' x2 gives {:?}", rec.ingredients));
                } else if refused {
                    ctx.count("good_call_after_refused_input_ok");
                }
            }
            Err(p) => ctx.violation(case, "history", "bindings_unusable_after_rejected_input", format!("after this input (refused: {refused}) a call with a good recipe panics: {} at {}", p.message, p.location)),
        }
        return;
    }
    let core = r.into_output().unwrap().scale(factor, parser.converter());
    let input = case.input.clone();
    let br = match crate::core::guarded(move || b::parse_recipe(input, factor)) {
        Ok(r) => r,
        Err(p) => {
            ctx.panic_violation(case, "bindings::parse_recipe", p);
            return;
        }
    };
    let mut bad: Vec<(&str, String)> = Vec::new();
    // components
    if br.ingredients.len() != core.ingredients.len() || br.cookware.len() != core.cookware.len() || br.timers.len() != core.timers.len() {
        bad.push(("component_count", format!("bindings {}/{}/{} core {}/{}/{}", br.ingredients.len(), br.cookware.len(), br.timers.len(), core.ingredients.len(), core.cookware.len(), core.timers.len())));
    } else {
        for (i, (x, y)) in br.ingredients.iter().zip(&core.ingredients).enumerate() {
            if x.name != y.name {
                bad.push(("ingredient_name", format!("{i}: {:?} vs {:?}", x.name, y.name)));
            }
            if x.descriptor != y.note {
                bad.push(("ingredient_note", format!("{i}: {:?} vs {:?}", x.descriptor, y.note)));
            }
            if let Err(m) = amount_matches(&x.amount, y.quantity.as_ref().map(|q| q.value()), y.quantity.as_ref().and_then(|q| q.unit())) {
                bad.push(("ingredient_amount", format!("{i} {:?}: {m}", y.name)));
            }
        }
        for (i, (x, y)) in br.cookware.iter().zip(&core.cookware).enumerate() {
            if x.name != y.name {
                bad.push(("cookware_name", format!("{i}: {:?} vs {:?}", x.name, y.name)));
            }
            if let Err(m) = amount_matches(&x.amount, y.quantity.as_ref(), None) {
                bad.push(("cookware_amount", format!("{i}: {m}")));
            }
        }
        for (i, (x, y)) in br.timers.iter().zip(&core.timers).enumerate() {
            // the record has no "absent name": None and "" both stand for it
            if x.name.clone().unwrap_or_default() != y.name.clone().unwrap_or_default() {
                bad.push(("timer_name", format!("{i}: {:?} vs {:?}", x.name, y.name)));
            }
            if let Err(m) = amount_matches(&x.amount, y.quantity.as_ref().map(|q| q.value()), y.quantity.as_ref().and_then(|q| q.unit())) {
                bad.push(("timer_amount", format!("{i}: {m}")));
            }
        }
    }
    // sections, blocks, items
    if br.sections.len() != core.sections.len() {
        bad.push(("section_count", format!("{} vs {}", br.sections.len(), core.sections.len())));
    } else {
        for (si, (bs, cs)) in br.sections.iter().zip(&core.sections).enumerate() {
            if bs.title != cs.name {
                bad.push(("section_title", format!("{si}: {:?} vs {:?}", bs.title, cs.name)));
            }
            if bs.blocks.len() != cs.content.len() {
                bad.push(("block_count", format!("section {si}: {} vs {}", bs.blocks.len(), cs.content.len())));
                continue;
            }
            let (mut ci, mut cc, mut ct) = (Vec::new(), Vec::new(), Vec::new());
            for (bi, (bb, cb)) in bs.blocks.iter().zip(&cs.content).enumerate() {
                match (bb, cb) {
                    (bm::Block::NoteBlock(n), Content::Text(t)) => {
                        if n.text != *t {
                            bad.push(("note_text", format!("section {si} block {bi}: {:?} vs {t:?}", n.text)));
                        }
                    }
                    (bm::Block::StepBlock(st), Content::Step(cst)) => {
                        if st.items.len() != cst.items.len() {
                            bad.push(("item_count", format!("section {si} block {bi}")));
                            continue;
                        }
                        let (mut ii, mut ic, mut it) = (Vec::new(), Vec::new(), Vec::new());
                        for (k, (x, y)) in st.items.iter().zip(&cst.items).enumerate() {
                            let same = match (x, y) {
                                (bm::Item::Text { value }, CItem::Text { value: v }) => value == v,
                                (bm::Item::IngredientRef { index }, CItem::Ingredient { index: j }) => {
                                    ii.push(*index);
                                    *index as usize == *j
                                }
                                (bm::Item::CookwareRef { index }, CItem::Cookware { index: j }) => {
                                    ic.push(*index);
                                    *index as usize == *j
                                }
                                (bm::Item::TimerRef { index }, CItem::Timer { index: j }) => {
                                    it.push(*index);
                                    *index as usize == *j
                                }
                                (bm::Item::Text { value }, CItem::InlineQuantity { .. }) => value.is_empty(),
                                _ => false,
                            };
                            if !same {
                                bad.push(("step_item", format!("section {si} block {bi} item {k}: {x:?} vs {y:?}")));
                            }
                            // every reference resolves to the component it denotes
                            let d = crate::core::guarded(|| b::deref_component(&br, x.clone()));
                            match (d, x) {
                                (Ok(bm::Component::IngredientComponent(c)), bm::Item::IngredientRef { index }) => {
                                    if br.ingredients.get(*index as usize) != Some(&c) || b::deref_ingredient(&br, *index) != c {
                                        bad.push(("deref_ingredient", format!("item {x:?} -> {c:?}")));
                                    }
                                }
                                (Ok(bm::Component::CookwareComponent(c)), bm::Item::CookwareRef { index }) => {
                                    if br.cookware.get(*index as usize) != Some(&c) || b::deref_cookware(&br, *index) != c {
                                        bad.push(("deref_cookware", format!("item {x:?} -> {c:?}")));
                                    }
                                }
                                (Ok(bm::Component::TimerComponent(c)), bm::Item::TimerRef { index }) => {
                                    if br.timers.get(*index as usize) != Some(&c) || b::deref_timer(&br, *index) != c {
                                        bad.push(("deref_timer", format!("item {x:?} -> {c:?}")));
                                    }
                                }
                                (Ok(bm::Component::TextComponent(t)), bm::Item::Text { value }) => {
                                    if t != *value {
                                        bad.push(("deref_text", format!("{t:?} vs {value:?}")));
                                    }
                                }
                                (Ok(other), _) => bad.push(("deref_wrong_kind", format!("item {x:?} -> {other:?}"))),
                                (Err(p), _) => bad.push(("deref_panics", format!("item {x:?}: {}", p.message))),
                            }
                        }
                        if st.ingredient_refs != ii || st.cookware_refs != ic || st.timer_refs != it {
                            bad.push(("step_reference_lists", format!("section {si} block {bi}: {:?}/{:?}/{:?} vs items {ii:?}/{ic:?}/{it:?}", st.ingredient_refs, st.cookware_refs, st.timer_refs)));
                        }
                        ci.extend(st.ingredient_refs.iter().copied());
                        cc.extend(st.cookware_refs.iter().copied());
                        ct.extend(st.timer_refs.iter().copied());
                    }
                    _ => bad.push(("block_kind", format!("section {si} block {bi}"))),
                }
            }
            if bs.ingredient_refs != ci || bs.cookware_refs != cc || bs.timer_refs != ct {
                bad.push(("section_reference_lists", format!("section {si}: {:?}/{:?}/{:?} vs concatenation {ci:?}/{cc:?}/{ct:?}", bs.ingredient_refs, bs.cookware_refs, bs.timer_refs)));
            }
        }
    }
    // string metadata entries
    let want: HashMap<String, String> = core.metadata.map.iter().filter_map(|(k, v)| Some((k.as_str()?.to_string(), v.as_str()?.to_string()))).collect();
    if br.metadata != want {
        bad.push(("metadata", format!("{:?} vs {want:?}", br.metadata)));
    }
    if bad.is_empty() {
        if !core.ingredients.is_empty() {
            ctx.nontrivial(case);
        }
        ctx.count("mirror_ok");
        ctx.count_n("components_mirrored", (core.ingredients.len() + core.cookware.len() + core.timers.len()) as u64);
        if ctx.evals % 3000 == 1 {
            ctx.sample(json!({"input": case.input, "factor": factor, "ingredients": br.ingredients.iter().map(|i| format!("{i:?}")).collect::<Vec<_>>()}));
        }
    }
    for (c, m) in bad {
        ctx.violation(case, "mirror", c, m);
    }
}

// ---------------------------------------------------------------- combining

fn rand_ingredient(r: &mut Rng, dyadic: bool) -> bm::Ingredient {
    let name = r.pick(&["salt", "flour", "water", "égg"]).to_string();
    // units that differ only in case are different units (T / t, L / l)
    let units = r.pick(&[None, Some("g"), Some("kg"), Some("cup"), Some("G"), Some("Kg"), Some("T"), Some("t"), Some("L"), Some("l")]).map(String::from);
    // dyadic: k/1024 (sums are exact in f64, ten decimal digits — a total that is rounded, truncated or accumulated
    // in f32 no longer compares equal); otherwise decimals with up to 9 digits spread over 12 orders of magnitude
    let num = |r: &mut Rng| {
        if dyadic {
            r.below(800 * 128) as f64 / 1024.0
        } else {
            let mant = (r.below(1_000_000_000) as f64 + 1.0) / 1e9;
            mant * [1e-6, 1e-3, 1.0, 1.0, 10.0, 1e3, 1e6][r.below(7)] + [0.0, 1.0 / 3.0][r.below(2)]
        }
    };
    let amount = match r.below(6) {
        0 => None,
        1 => Some(bm::Amount { quantity: bm::Value::Text { value: r.pick(&["some", "a bit", "x"]).to_string() }, units }),
        2 => {
            let a = num(r);
            Some(bm::Amount { quantity: bm::Value::Range { start: a, end: a + num(r) }, units })
        }
        3 => Some(bm::Amount { quantity: bm::Value::Empty, units }),
        _ => Some(bm::Amount { quantity: bm::Value::Number { value: num(r) }, units }),
    };
    bm::Ingredient { name, amount, descriptor: None }
}

#[derive(Default, Debug, Clone)]
struct Fold {
    number: f64,
    range: (f64, f64),
    texts: Vec<String>,
    n_number: u32,
    n_range: u32,
    n_text: u32,
    n_empty: u32,
}

/// independent fold: per (name, unit) and value kind
fn fold(list: &[bm::Ingredient], idx: &[u32]) -> HashMap<(String, String), Fold> {
    let mut m: HashMap<(String, String), Fold> = HashMap::new();
    for i in idx {
        let ing = &list[*i as usize];
        match &ing.amount {
            None => m.entry((ing.name.clone(), String::new())).or_default().n_empty += 1,
            Some(a) => {
                let e = m.entry((ing.name.clone(), a.units.clone().unwrap_or_default())).or_default();
                match &a.quantity {
                    bm::Value::Number { value } => {
                        e.number += value;
                        e.n_number += 1;
                    }
                    bm::Value::Range { start, end } => {
                        e.range.0 += start;
                        e.range.1 += end;
                        e.n_range += 1;
                    }
                    bm::Value::Text { value } => {
                        e.texts.push(value.clone());
                        e.n_text += 1;
                    }
                    bm::Value::Empty => e.n_empty += 1,
                }
            }
        }
    }
    m
}

fn compare(got: &bm::IngredientList, want: &HashMap<(String, String), Fold>, exact: bool) -> Option<(&'static str, String)> {
    let close = |a: f64, b: f64| if exact { a == b } else { (a - b).abs() <= 1e-9 * a.abs().max(b.abs()).max(1e-12) };
    let mut seen = 0usize;
    for ((name, unit), f) in want {
        let Some(gq) = got.get(name) else { return Some(("name_missing", format!("{name:?}"))) };
        let key = |t: bm::QuantityType| bm::GroupedQuantityKey { name: unit.clone(), unit_type: t };
        if f.n_number > 0 {
            seen += 1;
            match gq.get(&key(bm::QuantityType::Number)) {
                Some(bm::Value::Number { value }) if close(*value, f.number) => {}
                other => return Some(("number_total", format!("{name:?} {unit:?}: got {other:?}, sum of inputs {}", f.number))),
            }
        }
        if f.n_range > 0 {
            seen += 1;
            match gq.get(&key(bm::QuantityType::Range)) {
                Some(bm::Value::Range { start, end }) if close(*start, f.range.0) && close(*end, f.range.1) => {}
                other => return Some(("range_total", format!("{name:?} {unit:?}: got {other:?}, sum of inputs {:?}", f.range))),
            }
        }
        if f.n_text > 0 {
            seen += 1;
            match gq.get(&key(bm::QuantityType::Text)) {
                Some(bm::Value::Text { value }) => {
                    let total: usize = f.texts.iter().map(|t| t.len()).sum();
                    if value.len() != total || !f.texts.iter().all(|t| value.contains(t.as_str())) {
                        return Some(("text_not_each_once", format!("{name:?} {unit:?}: got {value:?} from {:?}", f.texts)));
                    }
                }
                other => return Some(("text_missing", format!("{name:?} {unit:?}: got {other:?}"))),
            }
        }
        if f.n_empty > 0 {
            seen += 1;
            match gq.get(&key(bm::QuantityType::Empty)) {
                Some(bm::Value::Empty) => {}
                other => return Some(("empty_missing", format!("{name:?} {unit:?}: got {other:?}"))),
            }
        }
    }
    let total: usize = got.values().map(|g| g.len()).sum();
    if total != seen {
        return Some(("extra_entries", format!("{total} entries in the result, {seen} expected")));
    }
    None
}

fn perms(n: usize) -> Vec<Vec<u32>> {
    fn rec(cur: &mut Vec<u32>, used: &mut Vec<bool>, n: usize, out: &mut Vec<Vec<u32>>) {
        if cur.len() == n {
            out.push(cur.clone());
            return;
        }
        for i in 0..n {
            if !used[i] {
                used[i] = true;
                cur.push(i as u32);
                rec(cur, used, n, out);
                cur.pop();
                used[i] = false;
            }
        }
    }
    let mut out = Vec::new();
    rec(&mut Vec::new(), &mut vec![false; n], n, &mut out);
    out
}

pub fn combine_case(ctx: &mut Ctx, seed: u64) {
    let mut r = Rng::new(seed);
    let dyadic = r.chance(2, 3);
    let n = if r.coin() { r.range(0, 5) } else { r.range(6, 30) };
    let list: Vec<bm::Ingredient> = (0..n).map(|_| rand_ingredient(&mut r, dyadic)).collect();
    let case = Case::new("combine", format!("{n} ingredients, dyadic={dyadic}"), 0, "n/a").with(json!({"seed": seed}));
    ctx.begin(&case);
    let all: Vec<u32> = (0..n as u32).collect();
    let want = fold(&list, &all);
    let res = crate::core::guarded(|| {
        let mut bad: Vec<(&'static str, String)> = Vec::new();
        let c = b::combine_ingredients(&list);
        if let Some((k, m)) = compare(&c, &want, dyadic) {
            bad.push((k, m));
        }
        // orders
        let orders: Vec<Vec<u32>> = if n <= 5 { perms(n) } else { (0..5).map(|_| { let mut o = all.clone(); r.shuffle(&mut o); o }).collect() };
        for o in &orders {
            let shuffled: Vec<bm::Ingredient> = o.iter().map(|i| list[*i as usize].clone()).collect();
            let c2 = b::combine_ingredients(&shuffled);
            if let Some((k, m)) = compare(&c2, &want, dyadic) {
                bad.push(("order_dependent", format!("order {o:?}: {k}: {m}")));
                break;
            }
        }
        // selections
        for _ in 0..4 {
            let sel: Vec<u32> = match r.below(4) {
                0 => vec![],
                1 => all.clone(),
                2 => all.iter().copied().filter(|_| r.coin()).collect(),
                _ => (0..r.below(n + 1)).map(|_| r.below(n.max(1)) as u32).filter(|i| (*i as usize) < n).collect(),
            };
            let by_sel = b::combine_ingredients_selected(&list, &sel);
            let sub: Vec<bm::Ingredient> = sel.iter().map(|i| list[*i as usize].clone()).collect();
            let by_sub = b::combine_ingredients(&sub);
            let w = fold(&list, &sel);
            if let Some((k, m)) = compare(&by_sel, &w, dyadic) {
                bad.push(("selection_total", format!("selection {sel:?}: {k}: {m}")));
            }
            if dyadic && by_sel != by_sub {
                // text concatenation order is the same in both, so equality is exact
                bad.push(("selection_differs_from_sublist", format!("selection {sel:?}")));
            }
        }
        // the list built in pieces: combine each piece, then fold the partial lists together (2 and 3 pieces, also empty)
        for _ in 0..3 {
            let (i, j) = (r.below(n + 1), r.below(n + 1));
            let (i, j) = (i.min(j), i.max(j));
            let pieces = [&list[..i], &list[i..j], &list[j..]];
            let mut left = b::combine_ingredients(pieces[0]);
            for p in &pieces[1..] {
                bm::merge_ingredient_lists(&mut left, &b::combine_ingredients(p));
            }
            if let Some((k, m)) = compare(&left, &want, dyadic) {
                bad.push(("merged_partial_lists_differ_from_one_combination", format!("pieces [..{i}] [{i}..{j}] [{j}..]: {k}: {m}")));
                break;
            }
            // a list merged into an empty one is itself
            let mut empty = bm::IngredientList::default();
            bm::merge_ingredient_lists(&mut empty, &c);
            if let Some((k, m)) = compare(&empty, &want, dyadic) {
                bad.push(("merge_into_empty_list_changes_it", format!("{k}: {m}")));
                break;
            }
        }
        (bad, orders.len())
    });
    match res {
        Err(p) => ctx.panic_violation(&case, "combine_ingredients", p),
        Ok((bad, norders)) => {
            if bad.is_empty() {
                ctx.count("combine_ok");
                ctx.count_n("orders_compared", norders as u64);
                if n > 0 {
                    ctx.nontrivial(&case);
                }
                if ctx.evals % 5000 == 2 {
                    ctx.sample(json!({"ingredients": list.iter().map(|i| format!("{i:?}")).collect::<Vec<_>>(), "orders": norders}));
                }
            }
            for (c, m) in bad {
                ctx.violation(&case, "combine", c, m);
            }
        }
    }
}

pub fn run(ctx: &mut Ctx) {
    let n = ctx.budget(6_000, 3_000_000);
    let opts = GenOpts::canonical();
    for i in 0..n {
        let seed = ctx.rng.next();
        let mut r = Rng::new(seed);
        let spec = g::gen_spec(&mut r, &opts);
        let sp = g::spell(&spec, seed, feat::ALL, (i % 3 + 1) as u32);
        let f = *ctx.rng.pick(&[1.0, 2.0, 0.5, 3.3, 1.004, 0.996, 1.0001, 1.1, 1.0 / 3.0, 0.999999]);
        let case = Case::new("mirror", sp.text, 0, "empty").with(json!({"factor": f}));
        mirror(ctx, &case, f);
        // the same text again at once with another factor, then with the first one: a call must not depend on the call before
        if i % 3 == 0 {
            let f2 = if f == 2.0 { 0.5 } else { 2.0 };
            let c2 = Case { params: json!({"factor": f2, "after_factor": f}), ..case.clone() };
            mirror(ctx, &c2, f2);
            let c3 = Case { params: json!({"factor": f, "after_factor": f2}), ..case.clone() };
            mirror(ctx, &c3, f);
            ctx.count("same_text_other_factor");
        }
    }
    // hand-written canonical recipes with what the generator does not write: recipe references with folders, runs of
    // blanks, trailing comments, servings together with fractional factors
    if ctx.shard == 0 {
        for text in [
            "Make the @./sauces/Hollandaise{150%g} first.\n", "Use @../basics/stock/chicken{1%l} and @./Bread{} and @./a/b/c d{2}.\n",
            "Add the @flour{50%g} -- equal weights\nand stir.\n\nAdd @milk{500%ml}\n    little by little.  Then  wait.\n",
            "---\nservings: 3\n---\nWhisk @flour{240%g} with @milk{300%ml} and @eggs{3}.\n", ">> servings: 4\nMix @a{100%g} and @b{1}.\n", "---\nyield: 7\n---\n@x{10%g}\n",
            "Fry the @onions{2} in the #pan{} -- medium heat\n\nSeason with @salt{}   \n",
        ] {
            for f in [1.0, 0.5, 1.5, 2.0, 1.0 / 3.0, 1.1] {
                mirror(ctx, &Case::new("mirror", text, 0, "empty").with(json!({"factor": f})), f);
                ctx.count("handwritten_mirrors");
            }
        }
    }
    // "every input the canonical parser accepts": short strings over the token alphabet (exhaustive), random and
    // mutated ones — escapes at line ends, CR/CRLF soup, comments, odd blocks; only canonically valid ones are mirrored
    {
        use crate::gen::alphabet::{self, ALPHABET, SEEDS, SMALL};
        let max = if ctx.is_thorough() { 3 } else { 2 };
        let total = alphabet::count_upto(SMALL.len(), max);
        let mut s = String::new();
        let mut idx = ctx.shard as u64;
        while idx < total {
            alphabet::nth(SMALL, idx, &mut s);
            mirror(ctx, &Case::new("mirror", s.as_str(), 0, "empty").with(json!({"factor": 1.0})), 1.0);
            ctx.count("inputs_exhaustive");
            idx += ctx.nshards as u64;
        }
        let n = ctx.budget(30_000, 9_000_000);
        for k in 0..n {
            let input = match k % 4 {
                0 => alphabet::random(ALPHABET, &mut ctx.rng, 3, 30),
                1 => alphabet::random_structured(ALPHABET, &mut ctx.rng, 25),
                2 => {
                    let mut m = alphabet::mutate(SEEDS[ctx.rng.below(SEEDS.len())], ALPHABET, &mut ctx.rng);
                    for _ in 0..ctx.rng.below(3) {
                        m = alphabet::mutate(&m, ALPHABET, &mut ctx.rng);
                    }
                    m
                }
                _ => {
                    // a generated canonical recipe with line-level damage: CRLF, a backslash at a line end, a lone CR
                    let seed = ctx.rng.next();
                    let mut r = Rng::new(seed);
                    let spec = g::gen_spec(&mut r, &opts);
                    let t = g::spell(&spec, seed, feat::ALL, 1).text;
                    match ctx.rng.below(4) {
                        0 => t.replace('\n', "\r\n"),
                        1 => t.replace(".\n", ".\\\n").replace('\n', "\r\n"),
                        2 => t.replace(" \n", "\\\n"),
                        _ => t.replacen('\n', "\r", 1),
                    }
                }
            };
            let f = *ctx.rng.pick(&[1.0, 2.0]);
            mirror(ctx, &Case::new("mirror", input, 0, "empty").with(json!({"factor": f})), f);
            ctx.count("inputs_random");
        }
    }
    let n = ctx.budget(12_000, 6_000_000);
    for _ in 0..n {
        let seed = ctx.rng.next();
        combine_case(ctx, seed);
    }
}

pub fn replay(ctx: &mut Ctx, case: &Case) {
    if case.kind == "mirror" {
        let f = case.params["factor"].as_f64().unwrap_or(1.0);
        mirror(ctx, case, f);
    } else {
        combine_case(ctx, case.params["seed"].as_u64().unwrap_or(0));
    }
}
