//! vmon_bindings — monitor for C19. Compiles /repo/bindings/src/lib.rs as a module of this
//! crate (so the working tree's source is what runs, and crate-private fields are visible).

#![allow(dead_code)]

#[path = "../../harness/src/core.rs"]
mod core;
#[path = "../../harness/src/gen/mod.rs"]
mod gen;

#[allow(clippy::all, unused)]
#[path = "/repo/bindings/src/lib.rs"]
mod bindings;

// the uniffi derive macros refer to `crate::UniFfiTag`
#[allow(unused_imports)]
pub(crate) use crate::bindings::UniFfiTag;

mod c19;

use crate::core::{Case, Ctx, Tier};

fn main() {
    let args: Vec<String> = std::env::args().collect();
    core::install_panic_hook();
    if args.len() < 3 {
        eprintln!("usage: vmon_bindings run|replay C19 ...");
        std::process::exit(64);
    }
    let replay = args[1] == "replay";
    let mut tier = Tier::Quick;
    let (mut seed, mut shard, mut nshards) = (0u64, 0usize, 1usize);
    let mut profile = String::from("chk");
    let mut out = String::from("/dev/null");
    let mut case_file = None;
    let mut trace = None;
    let mut i = 3;
    while i < args.len() {
        match args[i].as_str() {
            "--tier" => {
                tier = if args[i + 1] == "thorough" { Tier::Thorough } else { Tier::Quick };
                i += 1
            }
            "--seed" => {
                seed = args[i + 1].parse().unwrap();
                i += 1
            }
            "--shard" => {
                let (a, b) = args[i + 1].split_once('/').unwrap();
                shard = a.parse().unwrap();
                nshards = b.parse().unwrap();
                i += 1
            }
            "--profile" => {
                profile = args[i + 1].clone();
                i += 1
            }
            "--out" => {
                out = args[i + 1].clone();
                i += 1
            }
            "--trace" => {
                trace = Some(args[i + 1].clone());
                i += 1
            }
            other if replay && case_file.is_none() => case_file = Some(other.to_string()),
            _ => {}
        }
        i += 1;
    }
    let mut ctx = Ctx::new("C19", tier, seed, shard, nshards, &profile);
    if let Some(t) = trace {
        ctx.trace = Some(std::fs::File::create(t).unwrap());
    }
    if replay {
        let text = std::fs::read_to_string(case_file.expect("case file")).unwrap();
        let v: serde_json::Value = serde_json::from_str(&text).unwrap();
        let case: Case = serde_json::from_value(v.get("case").cloned().unwrap_or(v)).unwrap();
        c19::replay(&mut ctx, &case);
    } else {
        c19::run(&mut ctx);
    }
    ctx.finish(&out);
}
